"""Reference accumulator for filter/breakpoint commands (C12; reused by C10, C06/C11 walkers)."""
import re


class ConnOnly:
    """independent evaluator for an alternative that restricts the connection only (`B:`, `B: *`): the message arrived on the
    connection named so"""
    def __init__(self, name):
        self.name = name

    def matches(self, msg):
        # the connection the message arrived on (an object never seen created does not know its connection; the message does)
        c = msg.obj.connection if msg.obj.connection is not None else getattr(msg, 'connection', None)
        return (c.name() if c is not None else 'unknown') == self.name

    def always(self):
        return None


class IdOnly:
    """independent evaluator for an alternative that is a bare object id (`9`, `9b`): by the reference semantics of the matcher
    language (messages on the object, mentioning, creating or destroying it); where those are silent, the tool's own parse"""
    def __init__(self, matcher_mod, text, oid, gen_letters):
        self.tool = matcher_mod.parse(text).simplify()
        self.ast = ['bare', None, ['idgen', oid, gen_letters] if gen_letters else ['id', oid]]

    def matches(self, msg):
        from . import refmatch
        r = refmatch.ev_pattern(self.ast, msg)
        return self.tool.matches(msg) if r is None else r

    def always(self):
        return None


def atom_matcher(matcher_mod, text):
    """what decides whether one alternative selects a message: for the connection-only form and for a bare object id an
    evaluator of our own, otherwise the tool's parse of that single atom (its meaning is C05's business)"""
    mm = re.fullmatch(r'\s*([A-Za-z]+)\s*:\s*(\*\s*)?', text)
    if mm:
        return ConnOnly(mm.group(1))
    mm = re.fullmatch(r'\s*(\d+)([a-z]*)\s*', text)
    if mm:
        return IdOnly(matcher_mod, text, int(mm.group(1)), mm.group(2))
    return matcher_mod.parse(text).simplify()



class Model:
    """accumulator over atoms: alternatives P, exclusions N, star flag, or a constant"""
    def __init__(self, matcher, const):
        self.m = matcher
        self.const = const          # 'star' | 'bang' | None
        self.P, self.N, self.star, self.forgotten = [], [], False, []

    def is_star_atom(self, a):
        # an alternative that restricts nothing: says so itself *and* names nothing (a simplification that wrongly collapses
        # `B:` or `wl_x` to `*` must not teach the model that these select everything)
        import re
        if a.strip() == '*':
            return True
        return not re.search(r'[A-Za-z0-9]', a) and self.m.parse(a).simplify().always() is True

    def apply(self, alts, excl):
        if self.const is not None:
            self.P, self.N, self.star, self.forgotten = [], [], False, []
            self.const = None
        if any(self.is_star_atom(e) for e in excl):
            self.const = 'bang'
            self.P, self.N, self.star, self.forgotten = [], [], False, []
            return
        if any(self.is_star_atom(a) for a in alts):
            self.forgotten += self.P + [a for a in alts if not self.is_star_atom(a)]
            self.P = []
            self.star = True
        elif alts:
            self.P = list(alts) + self.P
            self.star = False
        elif not self.P and not self.star:
            self.star = True            # exclusions only, given while nothing restricted the selection
        self.N = list(excl) + self.N
        if self.star and not self.N:
            self.const = 'star'

    def reset_never(self):
        self.const = 'bang'
        self.P, self.N, self.star, self.forgotten = [], [], False, []

    def expect(self, parsed, msg):
        """True/False, or None when the statement leaves it open"""
        if self.const == 'bang': return False
        if self.const == 'star': return True
        if any(parsed[n].matches(msg) for n in self.N): return False
        if self.star or any(parsed[p].matches(msg) for p in self.P): return True
        if any(parsed[f].matches(msg) for f in self.forgotten): return None
        return False
