"""Reference accumulator for filter/breakpoint commands (C12; reused by C10, C06/C11 walkers)."""


class Model:
    """accumulator over atoms: alternatives P, exclusions N, star flag, or a constant"""
    def __init__(self, matcher, const):
        self.m = matcher
        self.const = const          # 'star' | 'bang' | None
        self.P, self.N, self.star, self.forgotten = [], [], False, []

    def is_star_atom(self, a):
        return a.strip() == '*' or self.m.parse(a).simplify().always() is True

    def apply(self, alts, excl):
        if self.const is not None:
            self.P, self.N, self.star, self.forgotten = [], [], False, []
            self.const = None
        if any(self.is_star_atom(e) for e in excl):
            self.const = 'bang'
            self.P, self.N, self.star, self.forgotten = [], [], False, []
            return
        if any(self.is_star_atom(a) for a in alts):
            self.forgotten += self.P + [a for a in alts if not self.is_star_atom(a)]
            self.P = []
            self.star = True
        elif alts:
            self.P = list(alts) + self.P
            self.star = False
        elif not self.P and not self.star:
            self.star = True            # exclusions only, given while nothing restricted the selection
        self.N = list(excl) + self.N
        if self.star and not self.N:
            self.const = 'star'

    def reset_never(self):
        self.const = 'bang'
        self.P, self.N, self.star, self.forgotten = [], [], False, []

    def expect(self, parsed, msg):
        """True/False, or None when the statement leaves it open"""
        if self.const == 'bang': return False
        if self.const == 'star': return True
        if any(parsed[n].matches(msg) for n in self.N): return False
        if self.star or any(parsed[p].matches(msg) for p in self.P): return True
        if any(parsed[f].matches(msg) for f in self.forgotten): return None
        return False
