"""Closure builder and driver for the GDB-mode checks (C09, C10, C15) on top of the gdb stand-in.

A closure spec is plain data:
  dict(name, signature, args=[[code, ...]], types=[iface|None per argument], sender_id, target_iface,
       side='client'|'server', sent=bool, conn=<int index of the wl_connection>, thread=<int>, t_us=<int>)
  args: ['i', v] ['u', v] ['f', raw24.8] ['s', text|None] ['o', iface_of_object|None, id|None] ['n', id]
        ['a', [ints]] ['h', fd]
`signature` contains the type codes of `args` in order, optionally preceded by version digits and with '?'
markers, exactly as libwayland stores it.
"""
import os, sys

FAKE_DIR = os.path.join(os.path.dirname(os.path.abspath(__file__)), 'fakegdb')


def install():
    """make `import gdb` find the stand-in (only in the processes of C09/C10/C15: core.util.check_gdb()
    changes behaviour elsewhere when a gdb module is importable)"""
    if FAKE_DIR not in sys.path:
        sys.path.insert(0, FAKE_DIR)
    import gdb
    return gdb


def codes_of(signature):
    return [c for c in signature if c in 'iufsonah']


POISON = 0x5a5a5a5a


class Builder:
    def __init__(self, G):
        self.G = G
        self.connections = {}      # index -> Obj(wl_connection)
        self.ifaces = {}
        self.owners = {}           # (index, side) -> the wl_display / wl_client that owns the connection (one per connection, as in libwayland)
        self.freed_owner_addrs = []   # addresses of owners whose connection was destroyed: malloc hands them out again
        self.arg_objs = {}            # (index, object id) -> (interface, the proxy / resource's wl_object): one address for an object's whole life
        self.freed_obj_addrs = []     # ... and the addresses of freed ones, which malloc hands to later objects (of any id)

    def iface(self, name):
        G = self.G
        if name not in self.ifaces:
            self.ifaces[name] = G.Obj(G.wl_interface, {'name': G.cstr(name), 'version': G.Value(G.int_t, 1), 'method_count': G.Value(G.int_t, 0),
                                                        'methods': G.null(G.void.pointer()), 'event_count': G.Value(G.int_t, 0), 'events': G.null(G.void.pointer())})
        return self.ifaces[name]

    def wl_object(self, iface, oid, parent=None):
        G = self.G
        return G.Obj(G.wl_object, {'interface': G.ptr(self.iface(iface)) if iface is not None else G.null(G.wl_interface.pointer()),
                                   'implementation': G.null(G.void.pointer()), 'id': G.Value(G.uint32, oid)}, parent=parent)

    def arg_object(self, conn, iface, oid):
        """the wl_object behind an object argument: the same address every time the object is mentioned; an object created
        later may get the address of one that was freed before"""
        key = (conn, oid)
        cur = self.arg_objs.get(key)
        if cur is not None and cur[0] == iface:
            return cur[1]
        if cur is not None:
            self.freed_obj_addrs.append(cur[1].addr)
        o = self.wl_object(iface, oid)
        if self.freed_obj_addrs:
            o.addr = self.freed_obj_addrs.pop(0)
        self.arg_objs[key] = (iface, o)
        return o

    def created(self, conn, oid):
        """a new id names `oid`: whatever object had that id before has been freed"""
        cur = self.arg_objs.pop((conn, oid), None)
        if cur is not None:
            self.freed_obj_addrs.append(cur[1].addr)

    def forget_objects(self, index):
        for key in [k for k in self.arg_objs if k[0] == index]:
            self.freed_obj_addrs.append(self.arg_objs.pop(key)[1].addr)

    def connection(self, index):
        G = self.G
        if index not in self.connections:
            self.connections[index] = G.Obj(G.wl_connection, {'fd': G.Value(G.int_t, 5 + index), 'want_flush': G.Value(G.int_t, 0)})
        return self.connections[index]

    def new_connection_at_same_address(self, index):
        """libwayland freed the wl_connection and malloc returned the same address again"""
        G = self.G
        old = self.connections.get(index)
        new = G.Obj(G.wl_connection, {'fd': G.Value(G.int_t, 5 + index), 'want_flush': G.Value(G.int_t, 0)})
        if old is not None:
            new.addr = old.addr
        self.connections[index] = new
        self.forget_owner(index)      # its wl_display / wl_client went with it
        self.forget_objects(index)
        return new

    def new_connection_elsewhere(self, index):
        """the wl_connection was freed; the next connection of this slot lives at a fresh address (its owner may still get a
        recycled one)"""
        G = self.G
        self.connections[index] = G.Obj(G.wl_connection, {'fd': G.Value(G.int_t, 5 + index), 'want_flush': G.Value(G.int_t, 0)})
        self.forget_owner(index)
        self.forget_objects(index)
        return self.connections[index]

    def owner(self, index, side):
        """the wl_display (client side) or wl_client (server side) behind connection `index`: one object for the connection's
        whole life; a later connection's owner may sit at the address a destroyed one had"""
        G = self.G
        key = (index, side)
        if key not in self.owners:
            conn = self.connection(index)
            if side == 'client':
                o = G.Obj(G.wl_display, {'proxy': G.Value(G.wl_proxy, obj=G.Obj(G.wl_proxy, {'object': G.Value(G.wl_object, obj=self.wl_object('wl_display', 1)),
                                                                                              'display': G.null(G.void.pointer())})),
                                         'connection': G.ptr(conn)})
            else:
                o = G.Obj(G.wl_client, {'connection': G.ptr(conn), 'display': G.null(G.void.pointer())})
            if self.freed_owner_addrs:
                o.addr = self.freed_owner_addrs.pop()
            self.owners[key] = o
        return self.owners[key]

    def forget_owner(self, index):
        for key in [k for k in self.owners if k[0] == index]:
            self.freed_owner_addrs.append(self.owners.pop(key).addr)

    def closure(self, spec, new_id_as_object):
        G = self.G
        slots = []
        for a in spec['args']:
            c = a[0]
            d = {k: G.Value(G.int_t if k in 'ih' else G.uint32 if k in 'un' else G.fixed if k == 'f' else G.int_t, POISON) for k in 'iufnh'}
            d['s'] = G.Value(G.char.pointer(), POISON)
            d['o'] = G.Value(G.wl_object.pointer(), POISON)
            d['a'] = G.Value(G.wl_array.pointer(), POISON)
            if c == 'i': d['i'] = G.Value(G.int_t, a[1])
            elif c == 'u': d['u'] = G.Value(G.uint32, a[1])
            elif c == 'h': d['h'] = G.Value(G.int_t, a[1])
            elif c == 'f': d['f'] = G.Value(G.fixed, a[1])
            elif c == 's': d['s'] = G.cstr(a[1])
            elif c == 'o':
                d['o'] = G.null(G.wl_object.pointer()) if a[2] is None else G.ptr(self.arg_object(spec['conn'], a[1], a[2]))
            elif c == 'n':
                self.created(spec['conn'], a[1])
                if new_id_as_object:
                    ti = spec['types'][len(slots)]
                    d['o'] = G.ptr(self.arg_object(spec['conn'], ti, a[1]))
                    d['n'] = G.Value(G.uint32, POISON)
                else:
                    d['n'] = G.Value(G.uint32, a[1])
            elif c == 'a':
                data = G.Obj(G.int_t, [G.Value(G.int_t, x) for x in a[1]])
                arr = G.Obj(G.wl_array, {'size': G.Value(G.size_t, 4 * len(a[1])), 'alloc': G.Value(G.size_t, 4 * len(a[1]) + 16),
                                         'data': G.Value(G.void.pointer(), obj=data)})
                d['a'] = G.ptr(arr)
            else:
                raise ValueError(c)
            slots.append(G.Value(G.wl_argument, obj=G.Obj(G.wl_argument, d)))
        while len(slots) < 20:
            d = {k: G.Value(G.int_t, POISON) for k in 'iufnh'}
            d['s'] = G.Value(G.char.pointer(), POISON)
            d['o'] = G.Value(G.wl_object.pointer(), POISON)
            d['a'] = G.Value(G.wl_array.pointer(), POISON)
            slots.append(G.Value(G.wl_argument, obj=G.Obj(G.wl_argument, d)))
        types = G.Obj(G.wl_interface.pointer(), [G.ptr(self.iface(t)) if t else G.null(G.wl_interface.pointer()) for t in spec['types']] or
                      [G.null(G.wl_interface.pointer())])
        msg = G.Obj(G.wl_message, {'name': G.cstr(spec['name']), 'signature': G.cstr(spec['signature']),
                                   'types': G.Value(G.wl_interface.pointer().pointer(), obj=types)})
        clo = G.Obj(G.wl_closure, {'count': G.Value(G.int_t, len(spec['args'])), 'message': G.ptr(msg), 'opcode': G.Value(G.uint32, 0),
                                   'sender_id': G.Value(G.uint32, spec['sender_id']),
                                   'args': G.Value(G.wl_closure.field('args').type, obj=G.Obj(G.wl_argument, slots)),
                                   'link': G.null(G.void.pointer()), 'proxy': G.null(G.wl_proxy.pointer())})
        return G.ptr(clo)

    def frames_for(self, spec):
        """the call stack libwayland has at the breakpoint this closure passes; returns (breakpoint location, frame)"""
        G = self.G
        conn = self.connection(spec['conn'])
        if spec['sent']:
            clo = self.closure(spec, False)
            parent = G.Frame(spec.get('via', 'wl_closure_send'), {'closure': clo, 'connection': G.ptr(conn)})
            return 'serialize_closure', G.Frame('serialize_closure', {'closure': clo, 'buffer': G.null(G.void.pointer())}, parent)
        if spec['side'] == 'client':
            clo = self.closure(spec, True)
            proxy_obj = None
            disp = self.owner(spec['conn'], 'client')
            target = self.wl_object(spec['target_iface'], spec['sender_id'])
            parent = G.Frame('dispatch_event', {'display': G.ptr(disp), 'closure': clo})
            loc = spec.get('via', 'wl_closure_invoke')
            return loc, G.Frame(loc, {'closure': clo, 'target': G.ptr(target), 'flags': G.Value(G.uint32, 0)}, parent)
        clo = self.closure(spec, False)
        client = self.owner(spec['conn'], 'server')
        res = G.Obj(G.wl_resource, {'destroy': G.null(G.void.pointer()), 'link': G.null(G.void.pointer()), 'client': G.ptr(client)})
        target = self.wl_object(spec['target_iface'], spec['sender_id'], parent=res)
        res.data['object'] = G.Value(G.wl_object, obj=target)
        parent = G.Frame('wl_client_connection_data', {'client': G.ptr(client)})
        loc = spec.get('via', 'wl_closure_invoke')
        return loc, G.Frame(loc, {'closure': clo, 'target': G.ptr(target), 'flags': G.Value(G.uint32, 0)}, parent)

    def destroy_frame(self, index):
        G = self.G
        return 'wl_connection_destroy', G.Frame('wl_connection_destroy', {'connection': G.ptr(self.connection(index))})


class Driver:
    """real Plugin + Controller + ConnectionManager on the stand-in; delivers closures through the plugin's own
    breakpoint objects and commands through its gdb.Command objects"""
    def __init__(self, break_text=None, filter_text=None, show_unprocessed=True):
        from . import env
        G = install()
        G.reset()
        env.reset_globals()
        from core import ConnectionManager, matcher
        from core.output import Output, stream
        from frontends.tui import Controller
        from backends.gdb_plugin import plugin, extract
        import importlib
        importlib.reload(extract)          # module-level caches must not leak between cases
        self.G = G
        self.plugin_mod = plugin
        self.extract = extract
        # the plugin's own stream class (what it writes goes through gdb.write, as in a real session); two stream tokens keep
        # normal and error output apart for the comparisons
        class PluginStream(plugin.Stream):
            def __init__(self, token):
                super().__init__(token)
                self._buf, self._seen = '', 0

            @property
            def buffer(self):
                w = G.state.written
                if self._seen > len(w):
                    self._buf, self._seen = '', 0
                if self._seen < len(w):
                    self._buf += ''.join(t for st, t in w[self._seen:] if st == self.stream)
                    self._seen = len(w)
                return self._buf
        self.out = PluginStream('wdv-out')
        self.err = PluginStream('wdv-err')
        self.output = Output(False, show_unprocessed, self.out, self.err)
        self.cm = ConnectionManager()
        f = matcher.parse(filter_text).simplify() if filter_text else matcher.always
        b = matcher.parse(break_text).simplify() if break_text else matcher.never
        self.ctl = Controller(self.output, self.cm, f, b)
        self.now = 0.0
        self._saved = (extract.time_now, plugin.time_now)
        extract.time_now = lambda: self.now
        plugin.time_now = lambda: self.now
        self.plugin = plugin.Plugin(self.output, self.cm, self.ctl, self.ctl)
        self.builder = Builder(G)
        self.bps = {b.location: b for b in G.breakpoints()}

    def close(self):
        self.extract.time_now, self.plugin_mod.time_now = self._saved

    def deliver(self, spec):
        """returns what the breakpoint's stop() returned"""
        G = self.G
        loc, frame = self.builder.frames_for(spec)
        G.state.frame = frame
        G.state.thread = G.InferiorThread(spec.get('thread', 1), spec.get('thread_name', 'main'))
        self.now = spec.get('t_us', 0) / 1e6
        return self.bps[loc].stop()

    def destroy(self, index, thread=1):
        G = self.G
        loc, frame = self.builder.destroy_frame(index)
        G.state.frame = frame
        G.state.thread = G.InferiorThread(thread, 'main')
        return self.bps[loc].stop()

    def command(self, text, via='wl'):
        """`wl <text>` (or the wl<sub> form); returns the gdb commands executed during it"""
        G = self.G
        n = len(G.state.executed)
        if via in G.state.commands and via not in ('w', 'wl', 'wayland'):
            G.state.commands[via].invoke(text, True)
        else:
            G.state.commands[via].invoke(text, True)
        return G.state.executed[n:]


# ------------------------------------------------------------------------------------------------
# message spec (wire.py / histgen) -> closure spec

KIND_CODE = {'int': 'i', 'uint': 'u', 'fixed': 'f', 'str': 's', 'obj': 'o', 'new': 'n', 'array': 'a', 'fd': 'h'}


def closure_of_message(m, side, conn_index, decl=None, version_prefix=''):
    """m: message spec of wire.py; decl: protoxml message (for declared interfaces / allow-null), may be None"""
    args, types, sig = [], [], version_prefix
    for i, a in enumerate(m['args']):
        k = a[0]
        pa = decl.args[i] if decl is not None and i < len(decl.args) else None
        if pa is not None and pa.allow_null and k in ('str', 'obj'):
            sig += '?'
        sig += KIND_CODE[k]
        if k in ('int', 'uint', 'fixed', 'fd'):
            v = a[1]
            if k == 'uint': v &= 0xffffffff
            args.append([KIND_CODE[k], v]); types.append(None)
        elif k == 'str':
            args.append(['s', a[1]]); types.append(None)
        elif k == 'obj':
            args.append(['o', a[1], a[2]])
            types.append(pa.interface if pa is not None else (a[1] if a[2] is not None else None))
        elif k == 'new':
            args.append(['n', a[2]]); types.append(a[1])
        elif k == 'array':
            args.append(['a', list(range(a[1] // 4))]); types.append(None)
    return dict(name=m['name'], signature=sig, args=args, types=types, sender_id=m['id'], target_iface=m['iface'], side=side, sent=m['sent'],
                conn=conn_index, thread=1, t_us=m['t_us'])
