"""Reference model of per-connection object tracking (DESIGN appendix B). Independent of core/.

world: tag -> connection, named A, B, ... in order of first appearance; t0 = time of the first message
connection: db = {1: [wl_display gen 0]}, role from the first message
step(m): target = db[m.id][-1]; delete_id on this connection's wl_display kills db[arg0][-1];
         bind types its new id from the interface-name argument; a new id appends an incarnation
         (implicitly destroying a live server-range predecessor, without annotation); an object argument
         is db[id][-1].
"""
SERVER_BASE = 0xff000000


def letters(n, caps=False):
    n += 1
    s = ''
    base = ord('A') if caps else ord('a')
    while n > 0:
        n -= 1
        s = chr(base + n % 26) + s
        n //= 26
    return s


class MObj:
    ghost = False

    def __init__(self, oid, gen, iface, t):
        self.id = oid
        self.gen = gen
        self.iface = iface
        self.created = t          # integer microseconds relative to the first message (None for wl_display)
        self.destroyed = None
        self.alive = True
        self.alive_at_use = True

    def label(self):
        return '%s@%d%s' % (self.iface, self.id, letters(self.gen))

    def key(self):
        return (self.iface, self.id, self.gen)


class MGhost:
    """an object whose creation was never seen (log started mid-session): known only by what the line says about it"""
    ghost = True
    gen = None
    created = None
    destroyed = None
    alive = True
    alive_at_use = True

    def __init__(self, oid, iface):
        self.id = oid
        self.iface = iface

    def label(self):
        return 'unresolved %s@%d?' % (self.iface, self.id)

    def key(self):
        return ('?', self.iface, self.id)


class MConn:
    def __init__(self, name):
        self.name = name
        self.db = {1: [MObj(1, 0, 'wl_display', None)]}
        self.msgs = []
        self.role = None
        self.open = True

    def latest(self, oid, iface=None):
        if oid not in self.db and iface is not None:
            return MGhost(oid, iface)
        return self.db[oid][-1]

    def alive_set(self):
        return {o.key() for l in self.db.values() for o in l if o.alive}

    def all_objects(self):
        return [o for l in self.db.values() for o in l]

    def step(self, m, t_rel_us):
        if not self.msgs:
            if m['name'] == 'get_registry':
                self.role = 'client' if m['sent'] else 'server'
            else:
                self.role = 'unknown'
        tgt = self.latest(m['id'], m['iface'])
        tgt_alive = tgt.alive
        destroyed = None
        if tgt.id == 1 and tgt.gen == 0 and m['name'] == 'delete_id' and m['args']:
            if m['args'][0][1] in self.db:
                destroyed = self.latest(m['args'][0][1])
                destroyed.alive = False
                destroyed.destroyed = t_rel_us
            # else: the object was created before the log started - the line is a message like any other, nothing to annotate
        argobjs, args_alive, created, implicit = [], [], [], []
        bind_type = None
        if tgt.iface == 'wl_registry' and m['name'] == 'bind':
            bind_type = m['args'][1][1]
        for a in m['args']:
            if a[0] == 'new':
                iface = a[1] if a[1] is not None else bind_type
                oid = a[2]
                lst = self.db.setdefault(oid, [])
                if lst and lst[-1].alive:
                    assert oid >= SERVER_BASE, 'ill-formed history: live client id %d reused' % oid
                    lst[-1].alive = False
                    lst[-1].destroyed = t_rel_us
                    implicit.append(lst[-1])
                o = MObj(oid, len(lst), iface, t_rel_us)
                lst.append(o)
                argobjs.append(o)
                args_alive.append(True)
                created.append(o)
            elif a[0] == 'obj' and a[2] is not None:
                o = self.latest(a[2], a[1])
                argobjs.append(o)
                args_alive.append(o.alive)
            else:
                argobjs.append(None)
                args_alive.append(True)
        tgt_rec = tgt
        rec = dict(m=m, t=t_rel_us, target=tgt_rec, target_alive=tgt_alive, args=argobjs, args_alive=args_alive,
                   destroyed=destroyed, created=created, implicit=implicit)
        # convenience for class labels
        tgt.alive_at_use = tgt_alive
        self.msgs.append(rec)
        return rec

    def mentions(self, rec, obj):
        """is `obj` the target of, an object/new-id argument of, or destroyed by the recorded message?"""
        return rec['target'] is obj or any(o is obj for o in rec['args']) or rec['destroyed'] is obj


class MWorld:
    def __init__(self):
        self.conns = {}
        self.order = []
        self.base = None
        self.n = 0
        self.recs = []

    def step(self, m):
        if self.base is None:
            self.base = m['t_us']
        tag = m['conn'] if m.get('conn') is not None else 'PARSED'
        opened = False
        if tag not in self.conns:
            name = letters(self.n, caps=True)
            self.n += 1
            self.conns[tag] = MConn(name)
            self.order.append(tag)
            opened = True
        c = self.conns[tag]
        rec = c.step(m, m['t_us'] - self.base)
        rec['conn'] = c
        rec['opened'] = opened
        self.recs.append(rec)
        return rec

    def close(self, tag):
        """the connection behind `tag` is gone (libwayland destroyed it): the next message carrying the tag opens a new one,
        with the next name and an empty table; the closed one stays known under a key of its own"""
        c = self.conns.pop(tag, None)
        if c is not None:
            c.open = False
            self.conns['%s (closed %s)' % (tag, c.name)] = c
        return c
