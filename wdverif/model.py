"""Reference model of per-connection object tracking (independent of core/)."""
SERVER_BASE = 0xff000000
def letters(n):
    n += 1; s = ''
    while n > 0:
        n -= 1; s = chr(ord('a') + n % 26) + s; n //= 26
    return s
class MObj:
    def __init__(s, oid, gen, iface, t):
        s.id = oid; s.gen = gen; s.iface = iface; s.created = t; s.destroyed = None; s.alive = True
    def label(s): return '%s@%d%s' % (s.iface, s.id, letters(s.gen))
class MConn:
    def __init__(s, name):
        s.name = name; s.db = {1: [MObj(1, 0, 'wl_display', 0)]}; s.msgs = []; s.role = None; s.open = True
    def latest(s, oid): return s.db[oid][-1]
    def step(s, m, t_rel_us):
        """returns record: target obj, per-arg objs (or None), destroyed obj, created list"""
        if not s.msgs and m['name'] == 'get_registry':
            s.role = 'client' if m['sent'] else 'server'
        elif not s.msgs:
            s.role = 'unknown'
        tgt = s.latest(m['id'])
        destroyed = None
        if tgt.id == 1 and tgt.gen == 0 and m['name'] == 'delete_id' and m['args']:
            destroyed = s.latest(m['args'][0][1])
            destroyed.alive = False; destroyed.destroyed = t_rel_us
        argobjs = []; created = []
        bind_type = None
        if tgt.iface == 'wl_registry' and m['name'] == 'bind':
            bind_type = m['args'][1][1]
        for a in m['args']:
            if a[0] == 'new':
                iface = a[1] if a[1] is not None else bind_type
                oid = a[2]
                lst = s.db.setdefault(oid, [])
                if lst and lst[-1].alive:
                    assert oid >= SERVER_BASE, 'ill-formed: live client id reused'
                    lst[-1].alive = False; lst[-1].destroyed = t_rel_us
                o = MObj(oid, len(lst), iface, t_rel_us); lst.append(o)
                argobjs.append(o); created.append(o)
            elif a[0] == 'obj' and a[2] is not None:
                argobjs.append(s.latest(a[2]))
            else:
                argobjs.append(None)
        rec = dict(m=m, t=t_rel_us, target=tgt, args=argobjs, destroyed=destroyed, created=created)
        s.msgs.append(rec)
        return rec
class MWorld:
    def __init__(s): s.conns = {}; s.order = []; s.base = None; s.n = 0
    def step(s, m):
        if s.base is None: s.base = m['t_us']
        tag = m['conn'] if m['conn'] is not None else 'PARSED'
        opened = False
        if tag not in s.conns:
            name = letters(s.n).upper(); s.n += 1
            s.conns[tag] = MConn(name); s.order.append(tag); opened = True
        c = s.conns[tag]
        rec = c.step(m, m['t_us'] - s.base)
        rec['conn'] = c; rec['opened'] = opened
        return rec
