#!/opt/veriftools/pyvenv/bin/python
"""Coverage-guided fuzzing of C18's entry points with atheris (libFuzzer), run under python3-vt.

    python3-vt -m wdverif.fuzz_c18 --target line|log|matcher|command --time SECONDS --seed N --out DIR [--corpus sample]

The semantic oracle sits inside the target (only the documented rejection channels; connections all closed;
every command answers). The target never lets an exception reach libFuzzer: findings are bucketed by
(type, innermost repository frame), the first input of each bucket is written to DIR/bucket-*.json, and the
campaign continues (libFuzzer would otherwise end at the first shallow finding). atexit handlers do not run
under libFuzzer, so stats are flushed every 500 executions.
"""
import os, sys, json, argparse, time, hashlib

HERE = os.path.dirname(os.path.dirname(os.path.abspath(__file__)))
if HERE not in sys.path:
    sys.path.insert(0, HERE)


def main():
    ap = argparse.ArgumentParser()
    ap.add_argument('--target', required=True)
    ap.add_argument('--time', type=int, default=30)
    ap.add_argument('--seed', type=int, default=1)
    ap.add_argument('--out', required=True)
    ap.add_argument('--corpus', default='empty')
    a = ap.parse_args()
    import atheris
    from wdverif import env
    with atheris.instrument_imports(include=['core', 'backends', 'frontends', 'interfaces']):
        from core import matcher  # noqa
        from backends.libwayland_debug_output import parse  # noqa
        from frontends.tui import Controller  # noqa
    from wdverif.props import c18
    os.makedirs(a.out, exist_ok=True)
    stats = dict(executions=0, findings=0, nontrivial=0, t0=time.time())
    seen = set()
    digests = set()

    def flush():
        json.dump(dict(stats, distinct_nontrivial=len(digests), wall=time.time() - stats['t0']), open(os.path.join(a.out, 'stats.json'), 'w'))

    def one(data):
        stats['executions'] += 1
        res = c18.fuzz_target(a.target, bytes(data))
        if res.nontrivial and len(digests) < 200000:
            digests.add(hashlib.sha1(bytes(data)).digest()[:8])
        for bucket, msg in res.discs:
            if bucket not in seen:
                seen.add(bucket)
                stats['findings'] += 1
                json.dump(dict(bucket=bucket, message=msg, data=list(bytes(data))), open(os.path.join(a.out, 'bucket-%d.json' % len(seen)), 'w'))
        if stats['executions'] % 500 == 0:
            flush()

    corpus = os.path.join(a.out, 'corpus')
    os.makedirs(corpus, exist_ok=True)
    if a.corpus == 'sample':
        for i, s in enumerate(c18.fuzz_seeds(a.target)):
            open(os.path.join(corpus, 'seed-%d' % i), 'wb').write(s)
    dic = os.path.join(a.out, 'dict.txt')
    with open(dic, 'w') as f:
        for tok in c18.fuzz_dictionary(a.target):
            f.write('"' + ''.join('\\x%02x' % b for b in tok.encode('utf-8')) + '"\n')
    flush()
    atheris.Setup([sys.argv[0], '-max_total_time=%d' % a.time, '-seed=%d' % a.seed, '-max_len=400', '-dict=' + dic, '-print_final_stats=0',
                   '-artifact_prefix=' + a.out + '/', corpus], one)
    atheris.Fuzz()


if __name__ == '__main__':
    main()
