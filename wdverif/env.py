"""Locate the code under test, import it from the *current working tree*, reset its global state.

Nothing here caches a build: every check process imports the repository's modules afresh from
WDV_REPO (default /repo), so edits to the working tree are always what gets tested.
"""
import os, sys, logging

VERIF = os.path.dirname(os.path.dirname(os.path.abspath(__file__)))
REPO = os.path.abspath(os.environ.get('WDV_REPO', '/repo'))

os.environ.setdefault('PYTHONDONTWRITEBYTECODE', '1')
sys.dont_write_bytecode = True
# the hook guard (MANIFEST.hooks.guard). No hook exists in the repository today; exported so that
# any future guarded instrumentation is switched on inside checks.
os.environ.setdefault('WAYLAND_DEBUG_VERIF', '1')

if REPO not in sys.path:
    sys.path.insert(0, REPO)


class LogCapture(logging.Handler):
    """Root-logger handler that records what the tool logs (warnings on well-formed input are counted
    in the evidence, never asserted)."""
    def __init__(self):
        super().__init__(level=logging.DEBUG)
        self.records = []

    def emit(self, record):
        try:
            self.records.append((record.levelname, record.name, record.getMessage()))
        except Exception:
            self.records.append((record.levelname, record.name, str(record.msg)))

    def take(self):
        r, self.records = self.records, []
        return r


log_capture = LogCapture()
_installed = False


def install_logging():
    global _installed
    root = logging.getLogger()
    for h in list(root.handlers):
        if h is not log_capture:
            root.removeHandler(h)
    if log_capture not in root.handlers:
        root.addHandler(log_capture)
    root.setLevel(logging.WARNING)
    _installed = True


_loaded = {'protocols': False}


def load_protocols(force=False):
    """protocol.load_all once per process (0.14 s); C07's synthetic stage dumps and reloads."""
    from core.wl import protocol
    from core.output import Output, stream
    if force or not _loaded['protocols'] or not protocol.interfaces:
        protocol.dump_all()
        protocol.load_all(Output(False, False, stream.Null(), stream.Null()))
        _loaded['protocols'] = True


def reset_globals(color=False, protocols=True):
    """Reset every piece of global mutable state of the code under test (top of every case)."""
    from core import wl
    from core import util
    install_logging()
    log_capture.take()
    wl.Message.base_time = None
    util.set_color_output(bool(color))
    util.verbose = False
    if protocols:
        load_protocols()
    ex = sys.modules.get('backends.gdb_plugin.extract')
    if ex is not None:
        ex.gdb_fast_access_map.clear()
        ex.wl_resource_ptr_type = None


def repo_frames(tb):
    """(filename relative to REPO, lineno, function) for traceback frames that lie in the repository."""
    out = []
    while tb is not None:
        fn = os.path.abspath(tb.tb_frame.f_code.co_filename)
        if fn.startswith(REPO + os.sep):
            out.append((os.path.relpath(fn, REPO), tb.tb_lineno, tb.tb_frame.f_code.co_name))
        tb = tb.tb_next
    return out
