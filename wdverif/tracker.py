"""Shared executor for C02/C03 (and users of "a history run through the real pipeline"):
feeds rendered lines to the real parser + ConnectionManager exactly as Parser.handle_message does,
steps the reference model with the same spec, and offers the per-step comparisons."""
import re
from . import env, wire, model, histgen
from .runner import Result, Draw


def key_of(o):
    return (o.type, o.id, o.generation)


class Tracker:
    def __init__(self, dialect='new', comma=False):
        from core import ConnectionManager
        from core.output import Output, stream
        from backends.libwayland_debug_output import parse
        env.reset_globals()
        self.parse = parse
        self.out = stream.String()
        self.err = stream.String()
        self.output = Output(False, True, self.out, self.err)
        self.cm = ConnectionManager()
        self.parser = parse.Parser(self.output, self.cm)
        self.world = model.MWorld()
        self.dialect = dialect
        self.comma = comma
        self.msgs = []           # real messages, in order
        self.at_arrival = []     # how each of them read when it arrived
        self.lines = []
        self.dead_seen = {}      # (conn name, id, gen) -> True once observed dead (monotone-death check)
        self.warnings = 0

    def conn_by_name(self, name):
        for c in self.cm.connections():
            if c.name() == name:
                return c
        return None

    def build_gdb_shaped(self, spec):
        """the message as the GDB backend hands it over: a sent message's target carries no interface (serialize_closure only
        yields the sender id), argument interfaces are the declared ones, arrays carry elements"""
        from core import wl
        P = histgen.protocols()
        pm = P[spec['iface']].msg(spec['name']) if spec['iface'] in P and not (spec['iface'] == 'wl_registry' and spec['name'] == 'bind') else None
        args = []
        for i, a in enumerate(spec['args']):
            k = a[0]
            pa = pm.args[i] if pm is not None and i < len(pm.args) else None
            if k == 'int': args.append(wl.Arg.Int(a[1]))
            elif k == 'uint': args.append(wl.Arg.Int(a[1] & 0xffffffff))
            elif k == 'fixed': args.append(wl.Arg.Float(a[1] / 256.0))
            elif k == 'str': args.append(wl.Arg.Null() if a[1] is None else wl.Arg.String(a[1]))
            elif k == 'obj':
                decl = pa.interface if pa is not None else None
                args.append(wl.Arg.Null(decl) if a[2] is None else wl.Arg.Object(wl.UnresolvedObject(a[2], decl if decl is not None else a[1]), False))
            elif k == 'new': args.append(wl.Arg.Object(wl.UnresolvedObject(a[2], a[1]), True))
            elif k == 'array': args.append(wl.Arg.Array([wl.Arg.Int(x) for x in range(a[1] // 4)]))
            elif k == 'fd': args.append(wl.Arg.Fd(a[1]))
        target = wl.UnresolvedObject(spec['id'], None if spec['sent'] else spec['iface'])
        tag = spec['conn'] if spec.get('conn') is not None else 'PARSED'
        return tag, wl.Message(spec['t_us'] / 1e6, target, spec['sent'], spec['name'], tuple(args))

    def apply(self, spec):
        line = wire.render(spec, self.dialect, comma=self.comma)
        self.lines.append(line)
        if self.dialect == 'gdb-shaped':
            conn_id, msg = self.build_gdb_shaped(spec)
            self.parser.handle_message(conn_id, msg)
            rec = self.world.step(spec)
            self.msgs.append(msg)
            self.at_arrival.append(str(msg))
            self.warnings += len(env.log_capture.take())
            return msg, rec
        conn_id, msg = self.parse.message(line)
        self.parser.handle_message(conn_id, msg)
        rec = self.world.step(spec)
        self.msgs.append(msg)
        self.at_arrival.append(str(msg))
        self.warnings += len(env.log_capture.take())
        return msg, rec


class GdbTracker(Tracker):
    """the same comparisons in GDB mode: every spec becomes a libwayland closure on the symbolic gdb stand-in and reaches the
    connection manager through the real plugin (breakpoint stop(), extract.py)"""
    def __init__(self, vprefix='', threads=None):
        from . import gdbsim
        self.threads = threads or [1]
        self.gdbsim = gdbsim
        self.drv = gdbsim.Driver()
        self.cm = self.drv.cm
        self.out, self.err = self.drv.out, self.drv.err
        self.world = model.MWorld()
        self.dialect = 'gdb-shaped'
        self.comma = False
        self.msgs, self.lines = [], []
        self.at_arrival = []
        self.dead_seen = {}
        self.warnings = 0
        self.vprefix = vprefix
        self.tags, self.sides = {}, {}
        self.parser = None

    def apply(self, spec):
        P = histgen.protocols()
        self.lines.append(wire.render(spec, 'new'))
        tag = spec['conn']
        if tag not in self.tags:
            self.tags[tag] = len(self.tags)
        decl = None
        if spec['iface'] in P and not (spec['iface'] == 'wl_registry' and spec['name'] == 'bind'):
            decl = P[spec['iface']].msg(spec['name'])
        conn = self.tags[tag]
        if conn not in self.sides:
            ev = decl.is_event if decl is not None else False
            self.sides[conn] = 'client' if (spec['sent'] != ev) else 'server'
        n0 = len(self.drv.ctl.all_messages)
        c = self.gdbsim.closure_of_message(spec, self.sides[conn], conn, decl, self.vprefix)
        # closures are dispatched on whatever thread the program uses (a warning may go to the error stream, nothing else changes)
        c['thread'] = self.threads[len(self.lines) % len(self.threads)]
        c['thread_name'] = None if c['thread'] != 1 else 'main'
        self.drv.deliver(c)
        rec = self.world.step(spec)
        got = self.drv.ctl.all_messages[n0:]
        if len(got) != 1:
            raise GdbModeLost('%d messages reached the controller for closure %s' % (len(got), self.lines[-1]))
        self.msgs.append(got[0])
        self.at_arrival.append(str(got[0]))
        self.warnings += len(env.log_capture.take())
        return got[0], rec

    def destroy(self, tag):
        """libwayland destroys the connection (wl_connection_destroy breakpoint); its address may be used again"""
        if tag in self.tags:
            self.drv.destroy(self.tags[tag])
            self.sides.pop(self.tags[tag], None)
            self.world.close(tag)

    def close(self):
        self.drv.close()


class GdbModeLost(Exception):
    pass


# ------------------------------------------------------------------------------------------------
# expected rendering (structure only: enum labels are C07's business, times are C16's)

def _arg_regex(a, obj, name, null_iface, dialect='new'):
    from core.util import no_color  # noqa
    k = a[0]
    pre = re.escape(name + '=') if name is not None else ''
    if k in ('int', 'uint'):
        v = a[1] & 0xffffffff if k == 'uint' else a[1]
        return pre + re.escape(str(v)) + r'(?::[^,]*)?'
    if k == 'fixed':
        if dialect == 'old':   # %f keeps six decimals; the tool shows what the log says
            return pre + re.escape(str(float('%f' % (a[1] / 256.0))))
        return pre + re.escape(str(a[1] / 256.0))
    if k == 'str':
        if a[1] is None:
            return pre + r'null (?:\?\?|\w+)'
        return pre + re.escape(repr(a[1]))
    if k == 'obj':
        if a[2] is None:
            return pre + re.escape('null ' + (null_iface if null_iface else '??'))
        return pre + re.escape(obj.label())
    if k == 'new':
        return pre + re.escape('new ' + obj.label())
    if k == 'array':
        if dialect == 'gdb-shaped':
            return pre + r'\[[^\[\]]*\]'
        return pre + re.escape('[...]')
    if k == 'fd':
        return pre + re.escape('fd %d' % a[1])
    raise ValueError(k)


def expected_line_regex(rec, dialect='new'):
    """regex for str(message) of the recorded step (no colour), up to enum labels and the lifespan digits"""
    P = histgen.protocols()
    m = rec['m']
    tgt = rec['target']
    pm = None
    if tgt.iface in P and not (tgt.iface == 'wl_registry' and m['name'] == 'bind'):
        pm = P[tgt.iface].msg(m['name'])
    parts = []
    for i, a in enumerate(m['args']):
        name = pm.args[i].name if pm is not None and i < len(pm.args) else None
        niface = pm.args[i].interface if pm is not None and i < len(pm.args) else None
        parts.append(_arg_regex(a, rec['args'][i], name, niface, dialect))
    s = (re.escape('→ ') if m['sent'] else '') + re.escape(tgt.label() + '.' + m['name'] + '(') + re.escape(', ').join(parts) + re.escape(')')
    if rec['destroyed'] is not None:
        s += re.escape(' -- ' + rec['destroyed'].label() + '.destroyed')
        if rec['destroyed'].created is not None:
            s += r' after (?P<life>-?\d+\.\d{4})s'
    if not m['sent']:
        s += re.escape(' ↲')
    return s


# ------------------------------------------------------------------------------------------------
# comparisons

def check_attribution(tr, msg, rec, res, tag=''):
    """C02: every mention resolves to the model's incarnation; creations are exactly the model's;
    nothing else in the table changed; labels on the rendered line are the model's."""
    from core import wl
    m = rec['m']
    if len(tr.msgs) <= 120 or len(tr.msgs) % 50 == 0:
        check_printed_again(tr, res, tag)
    gdb_sent_unseen = tag == ':gdb-mode' and rec['target'].ghost and m['sent']
    if rec['target'].ghost:
        # creation never seen (mid-session log): stays unresolved, known by what the line says - in GDB mode a sent closure does
        # not say what interface its (unseen) target has
        if msg.obj.resolved() or (msg.obj.type, msg.obj.id) not in ((rec['target'].iface, rec['target'].id), (None, rec['target'].id) if gdb_sent_unseen else ()):
            res.bad('target-attribution:unseen' + tag, '%s: target became %r, model says %r' % (tr.lines[-1], str(msg.obj), rec['target'].key()))
    else:
        if not msg.obj.resolved() or key_of(msg.obj) != rec['target'].key():
            res.bad('target-attribution' + tag, '%s: target resolved to %r, model says %r' % (tr.lines[-1], key_of(msg.obj), rec['target'].key()))
        if msg.obj.connection is None or msg.obj.connection.name() != rec['conn'].name:
            res.bad('message-connection' + tag, '%s: on connection %r, model says %r' % (
                tr.lines[-1], msg.obj.connection.name() if msg.obj.connection else None, rec['conn'].name))
    rc0 = tr.conn_by_name(rec['conn'].name)
    if rc0 is None or not rc0.messages() or rc0.messages()[-1] is not msg:
        res.bad('message-connection:record' + tag, '%s: not the last recorded message of connection %s' % (tr.lines[-1], rec['conn'].name))
    if len(msg.args) != len(m['args']):
        res.bad('argcount' + tag, tr.lines[-1])
    else:
        for i, (a, mo) in enumerate(zip(msg.args, rec['args'])):
            spec_a = m['args'][i]
            if mo is None:
                if isinstance(a, wl.Arg.Object):
                    res.bad('arg-invented-object' + tag, '%s arg %d' % (tr.lines[-1], i))
                continue
            if mo.ghost:
                # (GDB mode knows the interface of an unseen object argument only where the message declares one: `wl_display.error`
                # takes any object)
                ok_types = (mo.iface, None) if tag == ':gdb-mode' else (mo.iface,)
                if not isinstance(a, wl.Arg.Object) or a.obj.resolved() or a.obj.id != mo.id or a.obj.type not in ok_types:
                    res.bad('object-arg-attribution:unseen' + tag, '%s arg %d became %s, model says %r' % (tr.lines[-1], i, str(a), mo.key()))
                continue
            if not isinstance(a, wl.Arg.Object) or not a.obj.resolved() or key_of(a.obj) != mo.key():
                got = key_of(a.obj) if isinstance(a, wl.Arg.Object) else type(a).__name__
                kind = 'new-id' if spec_a[0] == 'new' else 'object-arg'
                res.bad('%s-attribution%s' % (kind, tag), '%s arg %d resolved to %r, model says %r' % (tr.lines[-1], i, got, mo.key()))
            elif a.is_new != (spec_a[0] == 'new'):
                res.bad('is-new-flag' + tag, '%s arg %d' % (tr.lines[-1], i))
    d_real = key_of(msg.destroyed_obj) if msg.destroyed_obj is not None else None
    d_mod = rec['destroyed'].key() if rec['destroyed'] is not None else None
    if d_real != d_mod:
        res.bad('delete_id-subject' + tag, '%s destroyed %r, model says %r' % (tr.lines[-1], d_real, d_mod))
    # full scan: no other object created, retyped or relabelled
    for tagname, mc in tr.world.conns.items():
        rc = tr.conn_by_name(mc.name)
        if rc is None:
            res.bad('connection-missing' + tag, mc.name)
            continue
        real = {i: [key_of(o) for o in l] for i, l in rc.db.items()}
        mod = {i: [o.key() for o in l] for i, l in mc.db.items()}
        if real != mod:
            diff = {i: (real.get(i), mod.get(i)) for i in set(real) | set(mod) if real.get(i) != mod.get(i)}
            res.bad('object-table' + tag, '%s: table of %s differs from model at %r' % (tr.lines[-1], mc.name, diff))
    # the rendered line (not judged for a closure sent on an unseen object in GDB mode: neither its interface nor, therefore, its
    # argument names can be known)
    line = str(msg)
    rx = expected_line_regex(rec, tr.dialect)
    gdb_unseen_arg = tag == ':gdb-mode' and any(o is not None and o.ghost for o in rec['args'])
    if gdb_sent_unseen or gdb_unseen_arg:
        pass
    elif not re.fullmatch(rx, line):
        res.bad('rendered-line' + tag, 'shown %r, expected to match %r' % (line, rx))
    res.evals += 1


def check_printed_again(tr, res, tag=''):
    """what a message says about objects is settled when it arrives: printed again later (`list` does that) every earlier line
    reads as it did then - whatever was created, destroyed or re-used since.  All of a short history, the recent and a sample of
    the older lines of a long one."""
    n = len(tr.msgs)
    idx = range(n) if n <= 80 else sorted(set(range(n - 40, n)) | set(range(0, n - 40, 9)))
    for i in idx:
        if i < len(tr.at_arrival):
            now = str(tr.msgs[i])
            if now != tr.at_arrival[i]:
                res.bad('earlier-line-reads-differently-later' + tag, 'message %d read %r when it arrived and reads %r after message %d' % (i, tr.at_arrival[i], now, n - 1))
                return


def check_lifetimes(tr, msg, rec, res, tag=''):
    """C03: alive sets equal the model's, death is monotone, the delete_id line (and only it) is
    annotated with the model's object and lifespan."""
    m = rec['m']
    for tagname, mc in tr.world.conns.items():
        rc = tr.conn_by_name(mc.name)
        if rc is None:
            continue
        real_alive = {key_of(o) for l in rc.db.values() for o in l if o.alive}
        if real_alive != mc.alive_set():
            res.bad('alive-set' + tag, '%s: alive on %s: only-real %r only-model %r' % (
                tr.lines[-1], mc.name, sorted(real_alive - mc.alive_set(), key=repr), sorted(mc.alive_set() - real_alive, key=repr)))
        per_id = {}
        for l in rc.db.values():
            for o in l:
                k = (mc.name,) + key_of(o)
                if not o.alive:
                    tr.dead_seen[k] = True
                elif tr.dead_seen.get(k):
                    res.bad('resurrected' + tag, '%s: %r alive again' % (tr.lines[-1], k))
                if o.alive:
                    per_id[o.id] = per_id.get(o.id, 0) + 1
        if any(v > 1 for v in per_id.values()):
            res.bad('two-alive-per-id' + tag, '%s: %r' % (tr.lines[-1], {i: v for i, v in per_id.items() if v > 1}))
        # destroy/create times of every object (exact integer microseconds in the model)
        for i, l in mc.db.items():
            rl = rc.db.get(i, [])
            for mo, ro in zip(l, rl):
                if mo.created is not None and (ro.create_time is None or abs(ro.create_time * 1e6 - mo.created) > 0.5):
                    res.bad('create-time' + tag, '%s: %r created at %r, model %r us' % (tr.lines[-1], mo.key(), ro.create_time, mo.created))
                if (mo.destroyed is None) != (ro.destroy_time is None):
                    res.bad('destroy-time-presence' + tag, '%s: %r destroy_time %r, model %r' % (tr.lines[-1], mo.key(), ro.destroy_time, mo.destroyed))
                elif mo.destroyed is not None and abs(ro.destroy_time * 1e6 - mo.destroyed) > 0.5:
                    res.bad('destroy-time' + tag, '%s: %r destroyed at %r, model %r us' % (tr.lines[-1], mo.key(), ro.destroy_time, mo.destroyed))
    is_delete = rec['destroyed'] is not None
    if (msg.destroyed_obj is not None) != is_delete:
        res.bad('destroyed-annotation-presence' + tag, '%s: destroyed_obj=%r' % (tr.lines[-1], msg.destroyed_obj is not None))
    line = str(msg)
    # strip string arguments before looking for the suffix (a string may contain the same text)
    bare = line
    for a in m['args']:
        if a[0] == 'str' and a[1] is not None:
            bare = bare.replace(repr(a[1]), '""', 1)
    has_suffix = ' -- ' in bare and '.destroyed' in bare
    if has_suffix != is_delete:
        res.bad('destroyed-suffix-presence' + tag, '%r (delete_id of a tracked object: %r)' % (line, is_delete))
    if is_delete and msg.destroyed_obj is not None:
        d = rec['destroyed']
        if key_of(msg.destroyed_obj) != d.key():
            res.bad('destroyed-wrong-object' + tag, '%s: annotated %r, model %r' % (tr.lines[-1], key_of(msg.destroyed_obj), d.key()))
        if d.created is not None:
            exact_us = d.destroyed - d.created
            ls = msg.destroyed_obj.lifespan()
            if ls is None or abs(ls * 1e6 - exact_us) > 0.5:
                res.bad('lifespan-value' + tag, '%s: lifespan() %r, exact %d us' % (tr.lines[-1], ls, exact_us))
            mm = re.search(r' after (-?\d+\.\d{4})s', bare)
            if not mm:
                res.bad('lifespan-missing' + tag, line)
            else:
                shown = int(mm.group(1).replace('.', '').lstrip('-') or '0') * (-1 if mm.group(1).startswith('-') else 1)
                # exact value in units of 1e-4 s, rounded; +-1 in the last printed digit
                if abs(shown * 100 - exact_us) > 150:
                    res.bad('lifespan-shown' + tag, '%r, exact %d us' % (line, exact_us))
                res.count('lifespans-checked')
    res.evals += 1


def check_after_close(tr, res, tag=''):
    """C03 after the input ended (connections closed): what was recorded about lifetimes stays as it was - the time of
    every destruction, and the lifespan a delete_id line shows when it is printed again (`list` prints it again)"""
    before = [str(m) for m in tr.msgs]
    tr.parser.cleanup()
    for tagname, mc in tr.world.conns.items():
        rc = tr.conn_by_name(mc.name)
        if rc is None:
            continue
        for i, l in mc.db.items():
            for mo, ro in zip(l, rc.db.get(i, [])):
                if mo.destroyed is not None and (ro.destroy_time is None or abs(ro.destroy_time * 1e6 - mo.destroyed) > 0.5):
                    res.bad('after-close:destroy-time' + tag, '%r destroyed at %r after the connection closed, model %r us' % (mo.key(), ro.destroy_time, mo.destroyed))
                if mo.destroyed is None and mo.created is not None and (ro.destroy_time is not None or not ro.alive):
                    res.bad('after-close:never-deleted-object-destroyed' + tag, '%r has no delete_id; after the connection closed it reads destroyed at %r' % (mo.key(), ro.destroy_time))
    after = [str(m) for m in tr.msgs]
    for a, b in zip(before, after):
        if a != b:
            res.bad('after-close:line-reads-differently' + tag, 'before the end of input %r, printed again afterwards %r' % (a, b))
            break
    res.evals += 1


def run_history(specs, checks, dialect='new', comma=False, res=None):
    """replay path (no Hypothesis): run the whole history, applying the comparisons after every step"""
    res = res or Result()
    res.evals = 0
    tr = Tracker(dialect, comma)
    for spec in specs:
        msg, rec = tr.apply(spec)
        for chk in checks:
            chk(tr, msg, rec, res)
    res.count('tool-warnings-on-wellformed-input', tr.warnings)
    for l in histgen.labels_of(specs):
        res.label(l)
    return tr, res


def run_long_history(specs, checks, dialect='new', res=None):
    """thousands of messages: every step goes through the tool and the model, the (table-wide) comparisons are made where
    something can change - around the incarnation counts at which the letters grow (26/27, 702/703), at every 97th step
    and over the last 60 steps"""
    res = res or Result()
    res.evals = 0
    tr = Tracker(dialect)
    n = len(specs)
    for k, spec in enumerate(specs):
        msg, rec = tr.apply(spec)
        gens = [o.gen for o in [rec['target']] + [a for a in rec['args'] if a is not None] + ([rec['destroyed']] if rec['destroyed'] is not None else []) if not o.ghost]
        near = any(g in (24, 25, 26, 27, 28, 700, 701, 702, 703, 704) for g in gens)
        if near or k % 97 == 0 or k >= n - 60:
            for chk in checks:
                chk(tr, msg, rec, res)
        if len(res.discs) > 20:
            break
    res.count('tool-warnings-on-wellformed-input', tr.warnings)
    return tr, res


# ------------------------------------------------------------------------------------------------
# Hypothesis rule-based machine over the step kinds of histgen

def make_machine(col, stage, tier, checks, profile=None, max_conns=3, kinds=('message', 'delete', 'bind', 'server_event', 'sync', 'newer', 'retype', 'enum', 'midsession', 'server_retype', 'repeat')):
    from hypothesis import strategies as st
    from hypothesis.stateful import RuleBasedStateMachine, rule, initialize, precondition

    class TrackerMachine(RuleBasedStateMachine):
        def __init__(self):
            super().__init__()
            self.tr = None
            self.case = None
            self.res = Result()
            self.res.evals = 0
            self.reported = False

        @initialize(data=st.data())
        def init(self, data):
            col.check_deadline()
            d = Draw(data)
            nconn = d.int(1, max_conns)
            tags = histgen.gen_tags(d, nconn)
            sides = [d.choice(['client', 'server']) for _ in tags]
            dialect = d.choice(['new', 'new', 'old'])
            self.case = dict(dialect=dialect, specs=[])
            self.gens = [histgen.ConnGen(t, s, profile) for t, s in zip(tags, sides)]
            self.t = d.choice([0, 1000, 123456789, 4_000_000_000])
            self.tr = Tracker(dialect)
            self.burst0 = d.int(1, 6) if d.chance(0.25) else 0     # messages carrying the very time of the first one

        def _step(self, data, kind):
            if self.tr is None:
                return          # the run ended with a crash that was reported
            d = Draw(data)
            g = d.choice(self.gens)
            if self.case['specs'] and len(self.case['specs']) > self.burst0:
                self.t = min(self.t + histgen.next_gap(d), histgen.T_MAX)
            m = g.next(d, kind)
            m['conn'] = g.tag
            m['t_us'] = self.t
            self.case['specs'].append(m)
            n0 = len(self.res.discs)
            try:
                msg, rec = self.tr.apply(m)
            except Exception as e:
                # an exception with a frame inside the repository is the tool's (a discrepancy), anything else is ours
                frames = env.repo_frames(e.__traceback__)
                if not frames:
                    raise
                f = frames[-1]
                self.res.bad('crash:%s@%s:%s' % (type(e).__name__, f[0], f[2]), '%s: %s at %s:%d on %s' % (type(e).__name__, e, f[0], f[1], self.tr.lines[-1]))
                self.reported = True
                stage.finish(self.case, self.res)
                col.add(stage, self.case, self.res)
                self.tr = None
                return
            for chk in checks:
                chk(self.tr, msg, rec, self.res)
            if col.shrink_bucket is not None and any(b == col.shrink_bucket for b, _ in self.res.discs[n0:]):
                self.reported = True
                stage.finish(self.case, self.res)
                col.add(stage, self.case, self.res)      # raises in shrink mode

        if 'message' in kinds:
            @rule(data=st.data())
            def message(self, data): self._step(data, 'message')
        if 'delete' in kinds:
            @rule(data=st.data())
            def delete_id(self, data): self._step(data, 'delete')
        if 'bind' in kinds:
            @rule(data=st.data())
            def bind(self, data): self._step(data, 'bind')
        if 'server_event' in kinds:
            @rule(data=st.data())
            def server_event(self, data): self._step(data, 'server_event')
        if 'sync' in kinds:
            @rule(data=st.data())
            def sync(self, data): self._step(data, 'sync')
        if 'newer' in kinds:
            @rule(data=st.data())
            def newer_than_description(self, data): self._step(data, 'newer')
        if 'retype' in kinds:
            @rule(data=st.data())
            def retype_freed_id(self, data): self._step(data, 'retype')
        if 'enum' in kinds:
            @rule(data=st.data())
            def enum_message(self, data): self._step(data, 'enum')
        if 'repeat' in kinds:
            @rule(data=st.data())
            def same_message_again(self, data): self._step(data, 'repeat')
        if 'clock_back' in kinds:
            @rule(data=st.data())
            def clock_steps_back(self, data):
                # libwayland's 32-bit microsecond clock wraps, a realtime clock is stepped: later lines carry earlier times.
                # Attribution does not depend on times at all
                d = Draw(data)
                self.t = max(0, self.t - d.choice([1_500_000, 2_500_000, 60_000_000, 4_000_000_000]))
        if 'server_retype' in kinds:
            @rule(data=st.data())
            def server_id_handed_out_again_for_another_interface(self, data): self._step(data, 'server_retype')
        if 'midsession' in kinds:
            @rule(data=st.data())
            def message_on_object_never_seen_created(self, data): self._step(data, 'midsession')
        if 'deep' in kinds:
            @rule(data=st.data())
            def deep_reuse(self, data): self._step(data, 'deep')
        if 'dead_creates' in kinds:
            @rule(data=st.data())
            def queued_event_after_delete_id_creates_an_object(self, data): self._step(data, 'dead_creates')
        if 'long_line' in kinds:
            @rule(data=st.data())
            def line_longer_than_4096_characters(self, data):
                if Draw(data).chance(0.3):
                    self._step(data, 'long_line')

        def teardown(self):
            if self.tr is None or self.reported or not self.case['specs']:
                return
            self.res.count('tool-warnings-on-wellformed-input', self.tr.warnings)
            stage.finish(self.case, self.res)
            col.add(stage, self.case, self.res)

    return TrackerMachine
