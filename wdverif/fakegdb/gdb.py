"""Symbolic stand-in for the `gdb` Python module (the slice that backends/gdb_plugin uses).

Memory is modelled symbolically: struct instances are dicts of field -> Value, arrays are lists; pointers
carry (object, byte offset). Pointer arithmetic is only defined on char* (what extract._fast_access does) and
is resolved through the synthetic field offsets, so the offset arithmetic of the code under test is really
exercised. The behaviour that matters was compared with real gdb 13.1 (see wdverif/gdbreal).
"""
import struct as _struct
import re as _re

TYPE_CODE_PTR, TYPE_CODE_STRUCT, TYPE_CODE_INT, TYPE_CODE_ARRAY, TYPE_CODE_UNION, TYPE_CODE_FLT = 1, 2, 3, 4, 5, 6
STDOUT, STDERR, STDLOG = 0, 1, 2
COMMAND_DATA = 1
VERSION = 'fakegdb'


class error(Exception):
    pass


class MemoryError(error):
    pass


class Field:
    def __init__(self, name, type_, bitpos):
        self.name = name
        self.type = type_
        self.bitpos = bitpos


class Type:
    def __init__(self, code, name=None, target=None, fields=None, sizeof=8):
        self.code = code
        self.name = name
        self._target = target
        self._fields = fields or []
        self.sizeof = sizeof
        self._ptr = None

    def pointer(self):
        if self._ptr is None:
            self._ptr = Type(TYPE_CODE_PTR, None, self, sizeof=8)
        return self._ptr

    def target(self):
        if self._target is None:
            raise RuntimeError('Type does not have a target.')
        return self._target

    def fields(self):
        return list(self._fields)

    def field(self, n):
        for f in self._fields:
            if f.name == n:
                return f
        raise error('There is no member named %s.' % n)

    def strip_typedefs(self):
        return self

    def __str__(self):
        if self.code == TYPE_CODE_PTR:
            return str(self._target) + ' *'
        return ('struct ' if self.code == TYPE_CODE_STRUCT else 'union ' if self.code == TYPE_CODE_UNION else '') + str(self.name)

    __repr__ = __str__


_types = {}


def scalar(name, size=4, code=TYPE_CODE_INT):
    if name not in _types:
        _types[name] = Type(code, name, sizeof=size)
    return _types[name]


def struct(name, fields, union=False):
    t = _types.get(name)
    if t is None:
        t = Type(TYPE_CODE_UNION if union else TYPE_CODE_STRUCT, name)
        _types[name] = t
    # synthetic layout: 8 bytes per member (16 for embedded structs); unions put everything at 0
    off = 0
    fl = []
    for n, ft in fields:
        fl.append(Field(n, ft, 0 if union else off * 8))
        off += 8 if ft.code not in (TYPE_CODE_STRUCT, TYPE_CODE_ARRAY) else 64
    t._fields = fl
    t.sizeof = 8 if union else max(8, off)
    return t


def array_of(t, n):
    return Type(TYPE_CODE_ARRAY, None, t, sizeof=t.sizeof * n)


def lookup_type(name):
    n = name.strip()
    for p in ('struct ', 'union '):
        if n.startswith(p):
            n = n[len(p):]
    if n not in _types:
        raise error('No type named %s.' % name)
    return _types[n]


class Obj:
    """something living in fake memory: struct instance (dict field -> Value), array (list of Value) or C string"""
    _next = [0x555500010000]

    def __init__(self, type_, data, parent=None):
        self.type = type_
        self.data = data
        self.parent = parent          # containing struct when this is its first member (address-preserving casts)
        self.addr = Obj._next[0]
        Obj._next[0] += 0x1000


class Value:
    def __init__(self, type_, v=None, obj=None, off=0):
        self.type = type_
        self.v = v            # scalars: python number; null/unknown pointers: integer address
        self.obj = obj        # pointers/structs/arrays: the Obj
        self.off = off        # pointers: byte offset into obj

    # -- pointers ---------------------------------------------------------------------------------
    def cast(self, t):
        if self.type.code == TYPE_CODE_PTR and t.code == TYPE_CODE_PTR:
            obj, off = self.obj, self.off
            tt = t._target
            if obj is not None and off == 0 and tt.code == TYPE_CODE_STRUCT and obj.type is not tt:
                # pointer to the first member of a struct -> pointer to the struct (same address), and back
                if obj.parent is not None and obj.parent.type is tt:
                    obj = obj.parent
                elif obj.type.code == TYPE_CODE_STRUCT and obj.type._fields and obj.type._fields[0].type is tt:
                    obj = obj.data[obj.type._fields[0].name].obj
            return Value(t, self.v, obj, off)
        if self.type.code == TYPE_CODE_INT and t.code == TYPE_CODE_PTR:
            return Value(t, int(self.v))
        if self.type.code in (TYPE_CODE_INT, TYPE_CODE_FLT) and t.code in (TYPE_CODE_INT, TYPE_CODE_FLT):
            return Value(t, self.v)
        raise error('Invalid cast.')

    def __add__(self, n):
        if self.type.code != TYPE_CODE_PTR:
            return Value(self.type, self.v + int(n))
        if self.type._target.name != 'char':
            raise error('fakegdb: pointer arithmetic is only modelled on char*')
        return Value(self.type, self.v, self.obj, self.off + int(n))

    def dereference(self):
        if self.type.code != TYPE_CODE_PTR:
            raise error('Attempt to take contents of a non-pointer value.')
        if self.obj is None:
            raise MemoryError('Cannot access memory at address 0x%x' % (self.v or 0))
        tt = self.type._target
        if self.off == 0 and (self.obj.type is tt) and tt.code in (TYPE_CODE_STRUCT, TYPE_CODE_UNION):
            return Value(tt, obj=self.obj)
        if self.obj.type.code in (TYPE_CODE_STRUCT, TYPE_CODE_UNION):
            for f in self.obj.type._fields:
                if f.bitpos // 8 == self.off:
                    val = self.obj.data[f.name]
                    if not _compat(val.type, tt):
                        raise error('fakegdb: dereference at offset %d of %s gives %s, asked for %s' % (self.off, self.obj.type, val.type, tt))
                    return val
            raise MemoryError('fakegdb: no member at offset %d of %s' % (self.off, self.obj.type))
        if isinstance(self.obj.data, list):
            return self.obj.data[0]
        raise MemoryError('fakegdb: cannot dereference')

    def __getitem__(self, k):
        if isinstance(k, str):
            v = self
            if v.type.code == TYPE_CODE_PTR:
                v = v.dereference()
            if v.type.code not in (TYPE_CODE_STRUCT, TYPE_CODE_UNION):
                raise error('Type %s is not a structure or union type.' % v.type)
            v.type.field(k)
            return v.obj.data[k]
        k = int(k)
        if self.type.code in (TYPE_CODE_ARRAY, TYPE_CODE_PTR):
            if self.obj is None:
                raise MemoryError('Cannot access memory at address 0x%x' % (self.v or 0))
            lst = self.obj.data
            if not isinstance(lst, list):
                raise error('fakegdb: not an array')
            if not (0 <= k < len(lst)):
                raise MemoryError('Cannot access memory (index %d of %d)' % (k, len(lst)))
            return lst[k]
        raise error('Cannot subscript requested type.')

    def string(self, *a, **kw):
        if self.obj is None:
            raise MemoryError('Cannot access memory at address 0x%x' % (self.v or 0))
        if not isinstance(self.obj.data, str):
            raise error('fakegdb: not a C string')
        return self.obj.data

    def __int__(self):
        if self.type.code == TYPE_CODE_PTR:
            if self.obj is None:
                return int(self.v or 0)
            return self.obj.addr + self.off
        return int(self.v)

    def __index__(self):
        return int(self)

    def __str__(self):
        if self.type.code == TYPE_CODE_PTR:
            return hex(int(self))
        if self.type.code == TYPE_CODE_FLT:
            return repr(float(self.v))
        return str(int(self.v))

    def __float__(self):
        return float(self.v)

    def __eq__(self, other):
        try:
            return int(self) == int(other)
        except Exception:
            return NotImplemented

    def __hash__(self):
        return hash(int(self))


def _compat(a, b):
    if a is b:
        return True
    if a.code != b.code:
        return False
    if a.code == TYPE_CODE_PTR:
        return True
    if a.code == TYPE_CODE_ARRAY:
        return True
    return a.name == b.name


def null(ptr_type):
    return Value(ptr_type, 0)


def ptr(obj, t=None):
    return Value((t or obj.type).pointer(), obj=obj)


def parse_and_eval(expr):
    """the expression family extract.py builds for wl_fixed_t: (double)(void*)(A + v) - (B): the pointer-to-double
    cast reinterprets the bits, as real gdb does when a program is loaded"""
    m = _re.fullmatch(r'\(double\)\(void\*\)\((.*)\) - \((.*)\)', expr.strip())
    if not m:
        raise error('fakegdb: unsupported expression: ' + expr)

    def ev(e):
        if not _re.fullmatch(r'[\d\sL+\-<()]*', e):
            raise error('fakegdb: unsupported sub-expression: ' + e)
        return eval(e.replace('LL', ''), {'__builtins__': {}})
    bits = ev(m.group(1)) & 0xffffffffffffffff
    d = _struct.unpack('<d', _struct.pack('<Q', bits))[0]
    return Value(scalar('double', 8, TYPE_CODE_FLT), d - ev(m.group(2)))


# -- frames / threads / commands --------------------------------------------------------------------
class Frame:
    def __init__(self, name, vars_, older=None):
        self._name = name
        self.vars = vars_
        self._older = older

    def read_var(self, n):
        if n not in self.vars:
            raise ValueError('Variable "%s" not found.' % n)
        return self.vars[n]

    def older(self):
        return self._older

    def name(self):
        return self._name

    def function(self):
        return self._name

    def is_valid(self):
        return True


class InferiorThread:
    def __init__(self, n, name=None):
        self.global_num = n
        self.num = n
        self.name = name
        self.ptid = (1000, 1000 + n, 0)


class _State:
    def __init__(self):
        self.reset()

    def reset(self):
        self.frame = None
        self.thread = InferiorThread(1, 'main')
        self.executed = []
        self.written = []
        self.decline_quit = False
        self.breakpoints = []
        self.commands = {}


state = _State()


def reset():
    state.reset()


def selected_frame():
    if state.frame is None:
        raise error('No frame selected.')
    return state.frame


def newest_frame():
    return selected_frame()


def selected_thread():
    return state.thread


def execute(cmd, from_tty=False, to_string=False):
    state.executed.append(cmd)
    if cmd == 'quit' and getattr(state, 'decline_quit', False):
        raise error('Not confirmed.')      # the user answered `n` to "A debugging session is active ... Quit anyway?"
    return '' if to_string else None


def write(text, stream=None):
    state.written.append((stream, text))


def flush(*a):
    pass


def breakpoints():
    return list(state.breakpoints)


class Breakpoint:
    def __init__(self, spec, *a, internal=False, qualified=False, **k):
        self.location = spec
        self.internal = internal
        self.enabled = True
        state.breakpoints.append(self)

    def stop(self):
        return True

    def delete(self):
        if self in state.breakpoints:
            state.breakpoints.remove(self)


class FinishBreakpoint(Breakpoint):
    def __init__(self, frame=None, internal=False):
        Breakpoint.__init__(self, 'finish', internal=internal)
        self.return_value = None


class Command:
    def __init__(self, name, cls=None, *a):
        self.name = name
        state.commands[name] = self

    def dont_repeat(self):
        pass


def string_to_argv(text):
    """gdb's own splitting of a command's argument string (buildargv): blanks separate, quotes and backslashes are consumed"""
    import shlex
    return shlex.split(text)


class Parameter:
    def __init__(self, *a, **k):
        self.value = None


def parameter(name):
    return None


class _Events:
    class _Ev:
        def connect(self, f): pass
        def disconnect(self, f): pass
    stop = exited = cont = new_objfile = _Ev()


events = _Events()

# -- libwayland's types (field names as in libwayland; extract.py addresses members by name) ------------
char = scalar('char', 1)
int_t = scalar('int', 4)
uint32 = scalar('uint32_t', 4)
size_t = scalar('size_t', 8)
fixed = scalar('wl_fixed_t', 4)
void = scalar('void', 1)
wl_interface = struct('wl_interface', [('name', char.pointer()), ('version', int_t), ('method_count', int_t), ('methods', void.pointer()),
                                       ('event_count', int_t), ('events', void.pointer())])
wl_object = struct('wl_object', [('interface', wl_interface.pointer()), ('implementation', void.pointer()), ('id', uint32)])
wl_array = struct('wl_array', [('size', size_t), ('alloc', size_t), ('data', void.pointer())])
wl_argument = struct('wl_argument', [('i', int_t), ('u', uint32), ('f', fixed), ('s', char.pointer()), ('o', wl_object.pointer()), ('n', uint32),
                                     ('a', wl_array.pointer()), ('h', int_t)], union=True)
wl_message = struct('wl_message', [('name', char.pointer()), ('signature', char.pointer()), ('types', wl_interface.pointer().pointer())])
wl_connection = struct('wl_connection', [('fd', int_t), ('want_flush', int_t)])
wl_proxy = struct('wl_proxy', [('object', wl_object), ('display', void.pointer())])
wl_closure = struct('wl_closure', [('count', int_t), ('message', wl_message.pointer()), ('opcode', uint32), ('sender_id', uint32),
                                   ('args', array_of(wl_argument, 20)), ('link', void.pointer()), ('proxy', wl_proxy.pointer())])
wl_display = struct('wl_display', [('proxy', wl_proxy), ('connection', wl_connection.pointer())])
wl_client = struct('wl_client', [('connection', wl_connection.pointer()), ('display', void.pointer())])
wl_resource = struct('wl_resource', [('object', wl_object), ('destroy', void.pointer()), ('link', void.pointer()), ('client', wl_client.pointer())])


def cstr(s):
    return null(char.pointer()) if s is None else Value(char.pointer(), obj=Obj(char, s))
