"""GDB plugin under a model (C10, C15): the real Plugin + Controller on the gdb stand-in, driven step by step.

ops (JSON):  ['msg', addr, thread, spec]   a closure arrives on the wl_connection at address index `addr`
             ['destroy', addr, thread]      libwayland destroys that wl_connection
             ['cmd', via, text]             the user types `<via> <text>` in gdb (via: wl | w | wayland | wl<sub>)
"""
import re
from . import env, gdbsim, histgen, model, session
from .runner import Result, Draw
from .accmodel import Model as BreakModel, atom_matcher

COMMANDS = ('help', 'list', 'filter', 'breakpoint', 'matcher', 'connection', 'resume', 'quit')
ATOMS = ['wl_display', '.sync', '.done', '.commit', '900', 'wl_callback.done', '.bind', 'wl_registry', '.delete_id', 'wl_callback', 'A:', 'B:', 'C:', '.new', '.destroyed', '2', '3', '3a', '2b', 'wl_callback.done',
         '(callback=)', 'wl_*', 'xdg_*', '.get_registry', 'wl_display.delete_id', '(nil)', '.global', 'wl_surface', '.commit', '4', 'B: wl_display',
         '9', '9a', '90', '9.sync', '10', '91', '8',
         # the same spelling as a string and as a word (type / label): different alternatives that print alike
         '("wl_seat")', '(wl_seat)', '("wl_compositor")', '(wl_compositor)', '("wl_shm")', '(wl_shm)', '("7")', '(7)']
MALFORMED = ['(', 'a.b.c', '[x', 'x ! y ! z']


def resolve_command(word):
    """the command a (possibly abbreviated) word denotes, or None"""
    w = word
    if w.startswith('wl'):
        w = w[2:]
    c = [x for x in COMMANDS if x.startswith(w)] if w else []
    return c[0] if len(c) == 1 else None


class PluginExec:
    def __init__(self, break_text=None, check_c10=True, check_c15=True):
        from core import matcher
        self.matcher = matcher
        self.drv = gdbsim.Driver(break_text=break_text)
        self.check_c10 = check_c10
        self.check_c15 = check_c15
        self.open = {}          # addr -> model connection
        self.all = []           # model connections in creation order
        self.n = 0
        self.bp = BreakModel(matcher, 'bang')
        self.parsed = {}
        if break_text:
            alts, excl = split_text(break_text)
            self.learn(alts + excl)
            self.bp.apply(alts, excl)
        self.sel = None
        self.quit = False
        self.t = 0
        self.steps = 0

    def close(self):
        self.drv.close()

    def learn(self, atoms):
        for a in atoms:
            if a not in self.parsed:
                self.parsed[a] = atom_matcher(self.matcher, a)

    # -------------------------------------------------------------------------------------------
    def apply(self, op, res):
        self.steps += 1
        drv = self.drv
        n_out, n_err = len(drv.out.buffer), len(drv.err.buffer)
        kind = op[0]
        try:
            if kind == 'msg':
                self._msg(op, res, n_out, n_err)
            elif kind == 'destroy':
                self._destroy(op, res, n_out)
            elif kind == 'cmd':
                self._cmd(op, res, n_out, n_err)
        except Exception as e:
            frames = env.repo_frames(e.__traceback__)
            if not frames:
                raise
            where = 'stop()' if kind in ('msg', 'destroy') else 'command'
            res.bad('exception-out-of-%s:%s@%s:%s' % (where, type(e).__name__, frames[-1][0], frames[-1][2]),
                    '%r raised %s: %s' % (op[:3] if kind == 'msg' else op, type(e).__name__, e))
        self._invariants(res, op)
        res.evals += 1

    def _new_out(self, n_out):
        return self.drv.out.buffer[n_out:].split('\n')[:-1]

    def _msg(self, op, res, n_out, n_err):
        _, addr, thread, spec = op
        self.t = spec['t_us']
        spec = dict(spec, conn=addr, thread=thread)
        opened = False
        if addr not in self.open:
            role = None
            if spec['name'] == 'get_registry':
                role = not spec['sent']
            mc = dict(name=model.letters(self.n, caps=True), open=True, role=role, msgs=0, addr=addr, thread=thread, ids=None)
            self.n += 1
            self.open[addr] = mc
            self.all.append(mc)
            opened = True
        mc = self.open[addr]
        mc['msgs'] += 1
        if spec['name'] == 'set_app_id' and spec['args'] and spec['args'][0][0] == 's' and spec['args'][0][1]:
            mc['app_id'] = spec['args'][0][1]      # `connection X` falls back to the app id when no connection is named X
        nrec = len(self.drv.ctl.all_messages)
        stopped = self.drv.deliver(spec)
        out = self._new_out(n_out)
        news = [l for l in out if session.NEW_LINE.match(l)]
        if self.check_c15:
            if len(news) != (1 if opened else 0):
                res.bad('new-connection-notice', 'message on address %d (%s): %d New notices: %r' % (addr, 'unknown' if opened else 'known', len(news), news))
            elif opened and session.NEW_LINE.match(news[0]).group(2) != mc['name']:
                res.bad('new-connection-name', '%r, model %s' % (news[0], mc['name']))
            if any(session.CLOSED_LINE.match(l) for l in out):
                res.bad('closed-notice-on-message', repr(out))
        if self.check_c15 and opened and 'instead of connection' in self.drv.err.buffer[n_err:]:
            res.bad('thread-warning-on-first-message', 'the first message of a new connection (address %d, thread %d) is reported as being on the wrong thread: %r' % (
                addr, thread, self.drv.err.buffer[n_err:][:200]))
        if len(self.drv.ctl.all_messages) != nrec + 1:
            res.bad('message-not-processed', 'message on address %d from thread %d was not recorded; err=%r' % (addr, thread, self.drv.err.buffer[n_err:][-200:]))
            return
        msg = self.drv.ctl.all_messages[-1]
        if msg.obj.connection is not None and msg.obj.connection.name() != mc['name']:
            res.bad('message-on-wrong-connection', 'address %d is %s, message attributed to %s' % (addr, mc['name'], msg.obj.connection.name()))
        if self.check_c15 and msg.obj.resolved():
            # whatever thread it came from: the message reads as a message on the (resolved) object it was attributed to
            head = '%s@%d%s.%s(' % (msg.obj.type, msg.obj.id, model.letters(msg.obj.generation), msg.name)
            shown = [session.MSG_LINE.match(l).group(3) for l in out if session.MSG_LINE.match(l)]
            for text in shown + [str(msg)]:
                if head not in text:
                    res.bad('message-reads-unresolved', 'message on address %d from thread %d is attributed to %s but reads %r' % (addr, thread, head[:-1], text[:160]))
                    break
        if self.check_c10:
            exp = self.bp.expect(self.parsed, msg)
            if exp is None:
                res.count('unspecified-absorbed-alternative')
            else:
                exp = exp and (self.sel is None or self.sel == mc['name'])
                if bool(stopped) != exp:
                    res.bad('halts-on-non-matching-message' if stopped else 'does-not-halt-on-matching-message',
                            'stop() returned %r for %s; breakpoint alternatives %r exclusions %r star=%r const=%r, selection %r' % (
                                stopped, str(msg), self.bp.P, self.bp.N, self.bp.star, self.bp.const, self.sel))
                notes = [l for l in out if l.startswith('    Stopped at ')]
                if len(notes) != (1 if exp else 0):
                    res.bad('stopped-notice', '%d "Stopped at" notices for a message that %s: %r' % (len(notes), 'matches' if exp else 'does not match', notes))
                elif exp and str(msg).strip() not in notes[0]:
                    res.bad('stopped-notice-names-other-message', '%r vs %r' % (notes[0], str(msg)))
                res.count('halted' if exp else 'left-running')

    def _destroy(self, op, res, n_out):
        _, addr, thread = op[:3]
        elsewhere = len(op) > 3 and op[3]
        known = addr in self.open
        if known:
            self.open[addr]['open'] = False
            del self.open[addr]
        r = self.drv.destroy(addr, thread)
        # malloc may hand the freed wl_connection's address out again, or another one; the freed wl_display / wl_client address
        # likewise goes to whichever owner is allocated next
        (self.drv.builder.new_connection_elsewhere if elsewhere else self.drv.builder.new_connection_at_same_address)(addr)
        out = self._new_out(n_out)
        closed = [l for l in out if session.CLOSED_LINE.match(l)]
        if r:
            res.bad('destroy-breakpoint-halts', 'stop() of wl_connection_destroy returned %r' % r)
        if self.check_c15 and len(closed) != (1 if known else 0):
            res.bad('closed-notice-count', 'destroy of %s address %d printed %d Closed notices' % ('known' if known else 'unknown', addr, len(closed)))

    def _cmd(self, op, res, n_out, n_err):
        _, via, text = op[:3]
        declined = len(op) > 3 and op[3] == 'declined'
        if via in ('wl', 'w', 'wayland'):
            full = text
        else:
            full = via[2:] + ' ' + text
        parts = re.split(r'\s', full.strip(), maxsplit=1)
        word = parts[0] if parts and parts[0] else ''
        arg = parts[1].strip() if len(parts) > 1 else ''
        while word in ('w', 'wl'):
            parts = re.split(r'\s', arg, maxsplit=1)
            word = parts[0] if parts and parts[0] else ''
            arg = parts[1].strip() if len(parts) > 1 else ''
        cmd = resolve_command(word) if word else None
        G = self.drv.G
        if declined:
            G.state.decline_quit = True      # ... and goes on answering `n` should gdb ask again
        n_exec = len(G.state.executed)
        try:
            executed = self.drv.command(text, via)
        except G.error as e:
            if 'Not confirmed' not in str(e):
                raise
            executed = G.state.executed[n_exec:]
        err = self.drv.err.buffer[n_err:]
        if cmd == 'breakpoint' and arg:
            alts, excl = split_text(arg)
            bad = False
            try:
                self.learn(alts + excl)
            except RuntimeError:
                bad = True
            if bad or arg in MALFORMED:
                if 'Failed to parse' not in err:
                    res.bad('malformed-breakpoint-not-reported', repr(arg))
            elif arg.strip() == '!':
                self.bp.reset_never()
            else:
                self.bp.apply(alts, excl)
        elif cmd == 'connection' and arg:
            if arg == 'all':
                self.sel = None
            else:
                target = next((mc for mc in self.all if mc['name'].lower() == arg.lower()), None)
                if target is None:
                    target = next((mc for mc in self.all if mc.get('app_id') and mc['app_id'].lower() == arg.lower()), None)
                if target is not None:
                    self.sel = target['name']
                    sw = [l for l in self._new_out(n_out) if l.startswith('Switched to connection ')]
                    if sw != ['Switched to connection ' + target['name']]:
                        res.bad('connection-command-selects-other', '`connection %s` answered %r, it denotes %s (by name first, then by app id)' % (arg, sw, target['name']))
        if cmd == 'quit' and G.state.decline_quit:
            # gdb asked "Quit anyway?" and the user said no: the session goes on (the user continues the program by hand). What gdb
            # is told after later commands is not judged from here on (the tool asks to quit again, a known oddity); halting is
            self.declined = True
        elif cmd == 'quit':
            self.quit = True
        if self.check_c10 and not getattr(self, 'declined', False):
            want = ['quit'] if self.quit else (['continue'] if cmd == 'resume' else [])
            if executed != want:
                res.bad('gdb-commands-after-command', 'after `%s %s` gdb executed %r, expected %r' % (via, text, executed, want))

    def _invariants(self, res, op):
        if not self.check_c15:
            return
        if op[0] == 'destroy' and self.sel is not None and not self.quit:
            # libwayland destroying a connection does not change which connection the user is looking at
            n0 = len(self.drv.out.buffer)
            self.drv.ctl.process_command('connection')
            marked = [l for l in self.drv.out.buffer[n0:].split('\n') if l.startswith(' => ')]
            if len(marked) != 1 or not marked[0].startswith(' => %s (' % self.sel):
                res.bad('selection-lost-on-destroy', 'connection %s was selected; after %r the list of connections marks %r' % (self.sel, op[:3], marked))
        real = list(self.drv.cm.connections())
        if [c.name() for c in real] != [m['name'] for m in self.all]:
            res.bad('connection-list', 'after %r: %r, model %r' % (op[:3], [c.name() for c in real], [m['name'] for m in self.all]))
            return
        for c, m in zip(real, self.all):
            if c.is_open() != m['open']:
                res.bad('connection-open-flag', 'after %r: %s is_open=%r, model %r' % (op[:3], m['name'], c.is_open(), m['open']))
            if len(c.messages()) != m['msgs']:
                res.bad('other-connection-disturbed' if op[0] != 'msg' or self.open.get(op[1]) is not m else 'message-count',
                        'after %r: %s has %d messages, model %d' % (op[:3], m['name'], len(c.messages()), m['msgs']))
            if c.is_server() != m['role']:
                res.bad('connection-role', '%s is_server=%r, model %r' % (m['name'], c.is_server(), m['role']))


def split_text(text):
    """alternatives / exclusions of a top-level matcher text built from ATOMS (no nested ! or ,)"""
    t = text.strip()
    if '!' in t:
        a, b = t.split('!', 1)
    else:
        a, b = t, ''
    alts = [x.strip() for x in a.split(',') if x.strip()]
    excl = [x.strip() for x in b.split(',') if x.strip()]
    return alts, excl


def gen_break_text(d, live_ids=()):
    if live_ids and d.chance(0.25):
        # an object of the running session by its id (and incarnation), as copied from the display
        i = d.choice(sorted(live_ids))
        return d.choice(['%d', '%da', '%d, wl_display', '%d.sync', '.commit ! %d']) % i
    k = d.int(0, 12)
    if k == 0 or k == 12: return d.choice(['*', '*', '*.*', '* . *'])      # "everything": earlier alternatives stop mattering, earlier exclusions stay
    if k == 1: return '!'
    if k == 2: return d.choice(MALFORMED)
    if k == 3: return d.choice(['A:', 'B:', 'C:', 'B: *', 'A: *', 'B:, C:', 'A: ! .sync'])      # restricted by connection only
    alts = [d.choice(ATOMS) for _ in range(d.int(0, 2))]
    excl = [d.choice(ATOMS) for _ in range(d.int(0 if alts else 1, 1))]
    return (', '.join(alts) + (' ! ' + ', '.join(excl) if excl else '')).strip()


def make_machine(col, stage, tier, check_c10, check_c15, weights):
    from hypothesis import strategies as st
    from hypothesis.stateful import RuleBasedStateMachine, rule, initialize, precondition

    class PluginMachine(RuleBasedStateMachine):
        def __init__(self):
            super().__init__()
            self.ex = None
            self.case = None
            self.res = Result()
            self.res.evals = 0
            self.reported = False

        @initialize(data=st.data())
        def init(self, data):
            col.check_deadline()
            d = Draw(data)
            bt = None
            if check_c10 and d.chance(0.6):
                bt = d.choice(['*', '* ! .delete_id', 'wl_display, wl_registry', '.sync, .bind, .get_registry', '* ! wl_callback', 'wl_*', '.new']) if d.chance(0.6) else gen_break_text(d)
            if bt in MALFORMED or bt == '!':
                bt = None
            self.case = dict(break_text=bt, ops=[])
            self.ex = PluginExec(bt, check_c10, check_c15)
            self.gens = {}
            self.t = 0

        def _do(self, op):
            self.case['ops'].append(op)
            n0 = len(self.res.discs)
            self.ex.apply(op, self.res)
            if col.shrink_bucket is not None and any(b == col.shrink_bucket for b, _ in self.res.discs[n0:]):
                self.reported = True
                stage.finish(self.case, self.res)
                col.add(stage, self.case, self.res)

        @rule(data=st.data())
        def message(self, data):
            if self.ex is None or self.ex.quit:
                return
            d = Draw(data)
            addr = d.int(0, 3)
            if self.ex.sel is not None and d.chance(0.5):
                # prefer the selected connection (halting depends on the selection)
                cand = [a for a, mc in self.ex.open.items() if mc['name'] == self.ex.sel]
                if cand:
                    addr = cand[0]
            thread = d.choice([1, 1, 1, 2, 3])
            g = self.gens.get(addr)
            if g is None:
                g = histgen.ConnGen(None, d.choice(['client', 'server']), dict(reuse=0.6, weights=weights, id_bases=[2, 2, 2, 8, 9, 89]))
                self.gens[addr] = g
            self.t += histgen.next_gap(d)
            if g.started and d.chance(0.35 if self.ex.sel is not None else 0.06):
                # gdb attached late: a message on an object this session never saw being created
                m = dict(sent=d.chance(0.5), iface=d.choice(['wl_callback', 'wl_surface', 'zz_unknown']), id=900 + d.int(0, 4), name=d.choice(['done', 'commit', 'sync']),
                         args=[['uint', 7]] if d.chance(0.5) else [])
                if m['iface'] == 'wl_surface': m['name'], m['args'] = 'commit', []
                if m['iface'] == 'wl_callback': m['name'], m['args'] = 'done', [['uint', 7]]
            else:
                m = g.next(d)
            m['conn'] = None
            m['t_us'] = self.t
            P = histgen.protocols()
            decl = P[m['iface']].msg(m['name']) if m['iface'] in P and not (m['iface'] == 'wl_registry' and m['name'] == 'bind') else None
            spec = gdbsim.closure_of_message(m, g.side, addr, decl)
            # gdb.InferiorThread.name is None for threads the program never named
            spec['thread_name'] = d.choice([None, None, 'main', 'worker-1']) if thread != 1 else d.choice(['main', None])
            self._do(['msg', addr, thread, spec])

        @rule(data=st.data())
        def app_id_like_a_name(self, data):
            """an earlier connection announces an app id that reads like a (later) connection's name"""
            if self.ex is None or self.ex.quit or not check_c10 or not self.gens:
                return
            d = Draw(data)
            addr = min(self.gens)
            if addr not in self.ex.open:
                return
            g = self.gens[addr]
            self.t += 1000
            m = g.next(d, 'appid')
            m['conn'] = None
            m['t_us'] = self.t
            P = histgen.protocols()
            decl = P[m['iface']].msg(m['name']) if m['iface'] in P and not (m['iface'] == 'wl_registry' and m['name'] == 'bind') else None
            self._do(['msg', addr, 1, gdbsim.closure_of_message(m, g.side, addr, decl)])

        @rule(data=st.data())
        def address_reused_from_another_thread(self, data):
            """a later connection lives at the address of a destroyed one and is served by another thread than that one was"""
            if self.ex is None or self.ex.quit or not check_c15:
                return
            gone = [mc for mc in self.ex.all if not mc['open'] and mc['addr'] not in self.ex.open]
            if not gone:
                return
            d = Draw(data)
            mc = d.choice(gone)
            addr = mc['addr']
            thread = d.choice([t for t in (1, 2, 3) if t != mc['thread']])
            g = histgen.ConnGen(None, d.choice(['server', 'server', 'client']), dict(reuse=0.6, weights=weights))
            self.gens[addr] = g
            P = histgen.protocols()
            for k in range(d.int(1, 3)):
                self.t += 1000
                m = g.next(d, 'first') if k == 0 and d.chance(0.7) else g.next(d, 'sync')
                m['conn'] = None
                m['t_us'] = self.t
                decl = P[m['iface']].msg(m['name']) if m['iface'] in P else None
                self._do(['msg', addr, thread, dict(gdbsim.closure_of_message(m, g.side, addr, decl), thread_name=None)])

        @rule(data=st.data())
        def destroy(self, data):
            if self.ex is None or self.ex.quit:
                return
            d = Draw(data)
            addr = d.int(0, 4)
            self.gens.pop(addr, None)
            self._do(['destroy', addr, d.choice([1, 1, 2]), d.chance(0.5)])

        @rule(data=st.data())
        def many_short_lived_connections(self, data):
            """a compositor's clients come and go (all at one wl_connection address) while older connections stay open"""
            if self.ex is None or self.ex.quit or getattr(self, 'bursts', 0) >= 1:
                return
            d = Draw(data)
            if not d.chance(0.25):
                return
            self.bursts = 1
            addr = 4
            for _ in range(d.int(21, 24)):
                if self.ex.quit:
                    return
                self.gens.pop(addr, None)
                g = histgen.ConnGen(None, 'server', dict(reuse=0.6, weights=weights))
                self.gens[addr] = g
                self.t += 1000
                m = g.next(d, 'first')
                m['conn'] = None
                m['t_us'] = self.t
                P = histgen.protocols()
                decl = P[m['iface']].msg(m['name']) if m['iface'] in P else None
                self._do(['msg', addr, 1, dict(gdbsim.closure_of_message(m, g.side, addr, decl), thread_name='main')])
                self.gens.pop(addr, None)
                self._do(['destroy', addr, 1, False])

        @rule(data=st.data())
        def twin_breakpoints(self, data):
            """two breakpoints that print alike but are not alike: a quoted string and the same spelling as a word (type / label)"""
            if self.ex is None or self.ex.quit or not check_c10 or getattr(self, 'twins_done', False):
                return
            d = Draw(data)
            if not d.chance(0.6):
                return
            self.twins_done = True
            w = d.choice(['wl_seat', 'wl_compositor', 'wl_shm', 'wl_seat'])
            pair = ['("%s")' % w, '(%s)' % w]
            if d.chance(0.25):
                pair.reverse()
            if d.chance(0.8):
                self._do(['cmd', 'wl', 'breakpoint !'])
            for t in pair:
                self._do(['cmd', 'wl', 'breakpoint ' + t])
            # ... and a message only the string one selects: a registry bind of that interface
            live = [a for a in sorted(self.gens) if a in self.ex.open and 2 in self.gens[a].live]
            if live and not self.ex.quit:
                addr = d.choice(live)
                g = self.gens[addr]
                m = dict(sent=g.sent(True), iface='wl_registry', id=2, name='global', args=[['uint', d.int(1, 60)], ['str', w], ['uint', d.int(1, 9)]])
                if m is not None:
                    self.t += 1000
                    m['conn'] = None
                    m['t_us'] = self.t
                    self._do(['msg', addr, self.ex.open[addr]['thread'], dict(gdbsim.closure_of_message(m, g.side, addr, None), thread_name='main')])

        @rule(data=st.data())
        def everything_after_exclusions(self, data):
            """`breakpoint *` while exclusions have accumulated: every message halts except the excluded ones"""
            if self.ex is None or self.ex.quit or not check_c10 or not self.ex.bp.N or self.ex.bp.const is not None:
                return
            d = Draw(data)
            self._do(['cmd', d.choice(['wl', 'w']), d.choice(['breakpoint ', 'b ']) + d.choice(['*', '*', '*.*', '* . *'])])

        @rule(data=st.data())
        def command(self, data):
            if self.ex is None or self.ex.quit:
                return
            d = Draw(data)
            k = d.weighted([(5, 'breakpoint'), (6, 'connection'), (4, 'resume'), (2, 'quit'), (3, 'other'), (4, 'filter')]) if check_c10 else d.weighted(
                [(1, 'breakpoint'), (3, 'connection'), (2, 'resume'), (3, 'other')])
            if k == 'breakpoint':
                word, arg = d.choice(['breakpoint', 'b', 'break', 'wlbreakpoint']), gen_break_text(d, {i for g in self.gens.values() for i in g.live if i > 1})
            elif k == 'connection':
                word, arg = d.choice(['connection', 'c', 'conn']), d.choice(['A', 'B', 'A', 'B', 'C', 'all', 'a', 'b', 'b', 'b', 'c', 'c', 'B', 'Z', 'Q', 'nope'])
            elif k == 'resume':
                word, arg = d.choice(['resume', 'r', 'res']), ''
            elif k == 'quit':
                word, arg = d.choice(['quit', 'q']), ''
                if d.chance(0.6):
                    self._do(['cmd', d.choice(['wl', 'w']), word, 'declined'])
                    return
            elif k == 'filter':
                # the output filter decides what is displayed, never whether the program halts
                word, arg = d.choice(['filter', 'f']), d.choice(['!', '*', 'wl_registry', 'wl_display', '.nope', 'B:', '* ! .sync', 'wl_callback'])
            else:
                word, arg = d.choice(['help', 'list', 'filter', 'matcher', 'frob', 'l', 'filter wl_display', 'list ~ 2', 'breakpoint', 'connection', 'h resume']), ''
            if d.chance(0.3) and word in COMMANDS:
                self._do(['cmd', 'wl' + word, arg])
            else:
                self._do(['cmd', d.choice(['wl', 'wl', 'w', 'wayland']), (word + ' ' + arg).strip()])

        def teardown(self):
            if self.ex is not None:
                self.ex.close()
            if self.ex is None or self.reported or not self.case['ops']:
                return
            stage.finish(self.case, self.res)
            col.add(stage, self.case, self.res)

    return PluginMachine


def scenario_case(d, kind, weights):
    """a short scripted situation (operations for `replay`): the classes a free-running machine reaches too rarely to be relied on"""
    P = histgen.protocols()
    ops = []
    t = [1000]
    gens = {}

    def msg(addr, m, thread=1, thread_name='main'):
        g = gens[addr]
        t[0] += 1000
        m['conn'] = None
        m['t_us'] = t[0]
        decl = P[m['iface']].msg(m['name']) if m['iface'] in P and not (m['iface'] == 'wl_registry' and m['name'] == 'bind') else None
        ops.append(['msg', addr, thread, dict(gdbsim.closure_of_message(m, g.side, addr, decl), thread_name=thread_name)])

    def start(addr, side=None, n=None, thread=1):
        g = histgen.ConnGen(None, side or d.choice(['client', 'server']), dict(reuse=0.6, weights=weights, id_bases=[2, 8, 9, 9, 89, 97]))
        gens[addr] = g
        msg(addr, g.next(d, 'first'), thread)
        for _ in range(n if n is not None else d.int(2, 7)):
            msg(addr, g.next(d), thread)
        return g
    cmd = lambda text: ops.append(['cmd', 'wl', text])
    if kind == 'bare-id':
        g = start(0)
        ids = sorted(i for i in g.live if i > 1) or [2]
        i = d.choice(ids)
        cmd('breakpoint ' + d.choice(['%d', '%da', '%d, 777', '.nope, %d']) % i)
        for _ in range(d.int(2, 6)):
            g.focus = i if i in g.live else None
            msg(0, g.next(d, 'message'))
    elif kind == 'twins':
        g = start(0)
        w = d.choice(['wl_seat', 'wl_compositor', 'wl_shm'])
        pair = ['("%s")' % w, '(%s)' % w]
        if d.chance(0.3):
            pair.reverse()
        cmd('breakpoint !')
        for x in pair:
            cmd('breakpoint ' + x)
        # a message only the string alternative selects (the registry announcing that interface), one both select (a bind of it)
        if 2 in g.live:
            msg(0, dict(sent=g.sent(True), iface='wl_registry', id=2, name='global', args=[['uint', d.int(1, 60)], ['str', w], ['uint', d.int(1, 9)]]))
        m = g.step_bind(d, iface=w)
        if m is not None:
            msg(0, m)
        for _ in range(d.int(1, 4)):
            msg(0, g.next(d))
    elif kind == 'blanks-in-string':
        # a string alternative with a run of blanks inside, given through one of the spellings gdb offers (`wl breakpoint X`,
        # `wlbreakpoint X`, `wl  b  X`): the text between the quotes is the string, blank for blank
        g = start(0)
        a, b = d.choice([('My  App', 'My App'), ('a   b', 'a b'), ('x  ', 'x '), ('Q3  report', 'Q3 report')])
        cmd('breakpoint !')
        via = d.choice(['wl', 'wlbreakpoint', 'wlbreakpoint'])
        ops.append(['cmd', via, (d.choice(['breakpoint ', 'b  ', 'break ']) if via == 'wl' else '') + '("%s")' % a])
        for w in d.perm([a, b, a]):
            if 2 in g.live:
                msg(0, dict(sent=g.sent(True), iface='wl_registry', id=2, name='global', args=[['uint', d.int(1, 60)], ['str', w], ['uint', d.int(1, 9)]]))
            msg(0, g.next(d, d.choice(['sync', 'message'])))
    elif kind == 'refused-selection':
        # a connection is selected, then a name that denotes nothing is refused: the selection stays as it was
        ga = start(0, n=d.int(1, 3))
        gb = start(1, n=d.int(1, 3))
        cmd('breakpoint ' + d.choice(['*', 'wl_display, wl_registry, wl_callback', '.sync, .get_registry, .done, .bind, .delete_id', '* ! .nope']))
        cmd(d.choice(['connection ', 'c ', 'conn ']) + d.choice(['A', 'B', 'a']))
        for _ in range(d.int(1, 2)):
            cmd('connection ' + d.choice(['Q', 'ZZ', 'nope', '7', 'C']))
        for _ in range(d.int(3, 7)):
            which = d.int(0, 1)
            msg(which, (ga, gb)[which].next(d, d.choice(['sync', 'message', 'delete', 'sync'])))
    elif kind == 'star-after-exclusion':
        g = start(0)
        cmd('breakpoint ' + d.choice(['wl_callback', 'wl_display', '.bind', 'wl_registry']) + ' ! ' + d.choice(['.delete_id', '.sync', 'wl_display', '.done']))
        cmd('breakpoint ' + d.choice(['*', '*.*', '* . *']))
        for _ in range(d.int(3, 8)):
            msg(0, g.next(d, d.choice(['sync', 'delete', 'message', 'bind'])))
    elif kind == 'declined-quit':
        g = start(0)
        cmd('breakpoint ' + d.choice(['wl_display', '.sync', 'wl_callback', '*']))
        ops.append(['cmd', 'wl', d.choice(['quit', 'q']), 'declined'])
        for _ in range(d.int(2, 6)):
            msg(0, g.next(d, d.choice(['sync', 'message', 'delete'])))
    elif kind == 'off-thread-percent':
        g = start(0, side='server', n=d.int(1, 4))
        text = d.choice(['50% done', '%s of %d', '100%', 'plain title'])
        for _ in range(d.int(1, 3)):
            msg(0, dict(sent=False, iface='xdg_toplevel', id=900 + d.int(0, 3), name='set_title', args=[['str', text]]), thread=d.choice([2, 3]), thread_name=d.choice([None, 'worker-1']))
            msg(0, g.next(d), thread=d.choice([1, 2]))
    elif kind == 'reuse-other-thread':
        start(0, side=d.choice(['server', 'server', 'client']), n=d.int(0, 3), thread=1)
        ops.append(['destroy', 0, 1, False])
        g = histgen.ConnGen(None, 'server', dict(reuse=0.6, weights=weights))
        gens[0] = g
        th = d.choice([2, 3])
        msg(0, g.next(d, 'first') if d.chance(0.7) else g.next(d, 'sync'), thread=th, thread_name=None)
        for _ in range(d.int(1, 4)):
            msg(0, g.next(d), thread=th, thread_name=None)
    elif kind == 'selection-survives-destroy':
        start(0, n=d.int(1, 3))
        start(1, n=d.int(1, 3))
        cmd('connection ' + d.choice(['A', 'B', 'b']))
        ops.append(['destroy', d.choice([0, 1]), 1, False])
        g = start(2, n=d.int(1, 3))
        if d.chance(0.5):
            ops.append(['destroy', 2, 1, False])
    else:
        raise ValueError(kind)
    return dict(ops=ops, break_text=None, scenario=kind)


def replay(case, check_c10, check_c15):
    res = Result()
    res.evals = 0
    ex = PluginExec(case.get('break_text'), check_c10, check_c15)
    try:
        for op in case['ops']:
            ex.apply(op, res)
    finally:
        ex.close()
    return res
