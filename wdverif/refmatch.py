"""Reference semantics of the matcher language (from matchers.md and the statement of C05), three-valued:
True / False where the documentation determines the answer, None where it is silent.  Plus the AST
generator and the two renderers (canonical; decorated with whitespace and redundant brackets).

AST (JSON lists):
  text : None | ['id', pat] | ['list', [pos..], [neg..]]
  obj  : None | ['type', pat] | ['id', n] | ['idgen', n, letters] | ['list', pos, neg]
  val  : None | ['int', n] | ['float', x] | ['str', s] | ['word', pat] | ['nil'] | ['list', pos, neg]
  arg  : ['arg', text|None, val|None] | ['list', pos, neg]
  pat  : ['star'] | ['bang'] | ['bare', conn, obj] | ['msg', conn, obj, name, args]   args: None | [pos, neg]
  top  : [pos, neg]
"""
import re


def k_not(a): return None if a is None else (not a)


def k_any(xs):
    u = False
    for x in xs:
        if x is True: return True
        if x is None: u = True
    return None if u else False


def k_all(xs):
    u = False
    for x in xs:
        if x is False: return False
        if x is None: u = True
    return None if u else True


def k_and(*xs): return k_all(xs)
def k_or(*xs): return k_any(xs)


def lst(pos, neg, f):
    return k_and(k_any(f(p) for p in pos), k_not(k_any(f(n) for n in neg)))


def letters_to_n(s):
    r = -1
    for c in s.lower():
        r = (r + 1) * 26 + (ord(c) - 97)
    return r


def wild(pat, s):
    return re.fullmatch('.*'.join(re.escape(p) for p in pat.split('*')), s, re.S) is not None


def ev_text(t, s):
    if t is None: return True
    if t[0] == 'id': return wild(t[1], s)
    return lst(t[1], t[2], lambda x: ev_text(x, s))


def ev_obj(o, obj):
    if o is None: return True
    k = o[0]
    if k == 'type': return obj.type is not None and wild(o[1], obj.type)
    if k == 'id': return obj.id == o[1]
    if k == 'idgen':
        if obj.id != o[1]: return False
        if obj.generation is None: return False      # never seen created: no incarnation, whatever letter is asked for
        return obj.generation == letters_to_n(o[2])
    return lst(o[1], o[2], lambda x: ev_obj(x, obj))


def kind(a):
    return type(a).__name__


def ev_val(v, a):
    if v is None: return True
    k = v[0]
    ak = kind(a)
    if k == 'int':
        if ak in ('Int', 'Float'): return a.value == v[1]
        if ak == 'Fd': return None if a.value == v[1] else False
        if ak == 'Object': return None if a.obj.id == v[1] else False
        return False
    if k == 'float':
        if ak == 'Float': return a.value == v[1]
        return False
    if k == 'str': return ak == 'String' and a.value == v[1]
    if k == 'word':
        if ak == 'Int': return any(wild(v[1], l) for l in getattr(a, 'labels', []))
        if ak == 'Object': return a.obj.type is not None and wild(v[1], a.obj.type)
        if ak == 'Null': return (None if wild(v[1], a.type) else False) if a.type else False
        return False
    if k == 'nil':
        return ak == 'Null'
    return lst(v[1], v[2], lambda x: ev_val(x, a))


def ev_arg(m, a):
    if m[0] == 'arg':
        return k_and(ev_text(m[1], a.name if a.name is not None else ''), ev_val(m[2], a))
    return lst(m[1], m[2], lambda x: ev_arg(x, a))


def ev_args(al, args):
    if al is None: return True
    pos, neg = al
    return k_and(k_all(k_any(ev_arg(p, a) for a in args) for p in pos),
                 k_not(k_any(k_any(ev_arg(n, a) for a in args) for n in neg)))


def names_exact(t, word):
    """does the name part spell `word` literally (True), cannot match it (False), or only matches it
    through a wildcard / is absent (None)"""
    if t is None: return None
    if t[0] == 'id':
        if t[1] == word: return True
        return None if wild(t[1], word) else False
    return lst(t[1], t[2], lambda x: names_exact(x, word))


CONN_NAMES = None      # optional {id(message): name the reference model gives the message's connection}


def conn_name(msg):
    """the connection the message arrived on (`unknown` only for a message that never went through a connection)"""
    if CONN_NAMES is not None and id(msg) in CONN_NAMES:
        return CONN_NAMES[id(msg)]
    c = msg.obj.connection if msg.obj.connection is not None else getattr(msg, 'connection', None)
    return c.name() if c is not None else 'unknown'


def ev_pattern(p, msg):
    from core import wl
    k = p[0]
    if k == 'star': return True
    if k == 'bang': return False
    if k == 'bare':
        c = ev_text(p[1], conn_name(msg))
        on = ev_obj(p[2], msg.obj)
        ment = k_any((ev_obj(p[2], a.obj) if isinstance(a, wl.Arg.Object) else (None if (isinstance(a, wl.Arg.Null) and p[2] is not None) else False))
                     for a in msg.args)
        dest = ev_obj(p[2], msg.destroyed_obj) if msg.destroyed_obj is not None else False
        return k_and(c, k_or(on, ment, dest))
    _, conn, obj, name, args = p
    c = ev_text(conn, conn_name(msg))
    regular = k_and(ev_obj(obj, msg.obj), ev_text(name, msg.name), ev_args(args, msg.args))
    noargs = ev_args(args, ())
    pn = k_and(names_exact(name, 'new'), noargs)
    pd = k_and(names_exact(name, 'destroyed'), noargs)
    new = k_and(pn, k_any(ev_obj(obj, a.obj) for a in msg.args if isinstance(a, wl.Arg.Object) and a.is_new))
    dst = k_and(pd, ev_obj(obj, msg.destroyed_obj) if msg.destroyed_obj is not None else False)
    return k_and(c, k_or(regular, new, dst))


def ev(ast, msg):
    pos, neg = ast
    return lst(pos, neg, lambda p: ev_pattern(p, msg))


# ------------------------------------------------------------------------------------------------
# rendering

class Plain:
    def sp(self, n=0): return ' ' * n
    def wrap(self, x): return x


class Decor:
    """whitespace (blank, two blanks, tab) at token boundaries and redundant [ ] around components; the
    choices come from a pre-drawn list so that rendering is a pure function of the case"""
    def __init__(self, choices):
        self.c = list(choices) or [0]
        self.i = 0

    def _next(self):
        v = self.c[self.i % len(self.c)]
        self.i += 1
        return v

    def sp(self, n=0):
        v = self._next() % 8
        return [' ', '  ', '\t'][v] if v < 3 else ' ' * n

    def wrap(self, x):
        v = self._next() % 10
        if v == 0:
            return '[' + self.sp() + x + self.sp() + ']'
        if v == 1:
            return '[[' + x + ']' + self.sp() + ']'
        return x


def r_list(pos, neg, f, D, brackets=True):
    s = D.sp() + (D.sp() + ',' + D.sp(1)).join(f(p) for p in pos)
    if neg:
        s += D.sp(1) + '!' + D.sp(1) + (D.sp() + ',' + D.sp(1)).join(f(n) for n in neg)
    s += D.sp()
    return '[' + s + ']' if brackets else s


def r_text(t, D):
    if t is None: return ''
    if t[0] == 'id': return D.wrap(t[1])
    return r_list(t[1], t[2], lambda x: r_text(x, D), D)


def r_obj(o, D):
    if o is None: return ''
    k = o[0]
    if k == 'type': return D.wrap(o[1])
    if k == 'id': return D.wrap(str(o[1]))
    if k == 'idgen': return D.wrap(str(o[1]) + o[2])
    return r_list(o[1], o[2], lambda x: r_obj(x, D), D)


def r_val(v, D):
    if v is None: return ''
    k = v[0]
    if k == 'int': return D.wrap(str(v[1]))
    if k == 'float': return D.wrap(repr(float(v[1])))
    if k == 'str': return D.wrap('"' + v[1] + '"')
    if k == 'word': return D.wrap(v[1])
    if k == 'nil': return D.wrap('nil')
    return r_list(v[1], v[2], lambda x: r_val(x, D), D)


def r_arg(m, D):
    if m[0] == 'arg':
        if m[1] is None: return r_val(m[2], D)
        return r_text(m[1], D) + D.sp() + '=' + D.sp() + r_val(m[2], D)
    return r_list(m[1], m[2], lambda x: r_arg(x, D), D)


def r_pattern(p, D):
    k = p[0]
    if k == 'star': return '*'
    if k == 'bang': return '!'
    conn = (r_text(p[1], D) + D.sp() + ':' + D.sp(1)) if p[1] is not None else ''
    if k == 'bare': return conn + r_obj(p[2], D)
    _, _, obj, name, args = p
    s = conn + r_obj(obj, D)
    if name is not None or args is None:
        s += D.sp() + '.' + D.sp() + r_text(name, D)
    if args is not None:
        s += D.sp() + '(' + r_list(args[0], args[1], lambda x: r_arg(x, D), D, brackets=False) + ')'
    return s


def render(ast, D):
    pos, neg = ast
    if pos == [['bang']] and not neg:
        return D.sp() + '!' + D.sp()
    if pos == [['star']] and neg:
        return D.sp() + '!' + D.sp(1) + (D.sp() + ',' + D.sp(1)).join(r_pattern(n, D) for n in neg) + D.sp()
    return r_list(pos, neg, lambda x: r_pattern(x, D), D, brackets=False)


def features(ast):
    """syntactic features of a matcher (for the non-triviality rule)"""
    F = set()

    def walk(x):
        if isinstance(x, list):
            if x and x[0] == 'list':
                F.add('list')
                if x[2]: F.add('exclusion')
            if x and x[0] in ('id', 'type', 'word') and len(x) > 1 and isinstance(x[1], str):
                if '*' in x[1]: F.add('wildcard')
                if x[0] == 'id' and x[1] in ('new', 'destroyed'): F.add('new/destroyed')
            if x and x[0] == 'idgen': F.add('incarnation')
            if x and x[0] in ('bare', 'msg') and x[1] is not None: F.add('connection')
            if x and x[0] == 'msg' and x[4] is not None: F.add('args')
            if x and x[0] == 'bare': F.add('bare-object')
            for y in x:
                walk(y)
    walk(ast)
    pos, neg = ast
    if len(pos) > 1: F.add('list')
    if neg: F.add('exclusion')
    return F


# ------------------------------------------------------------------------------------------------
# vocabulary of a history (spec side: model + independent protocol reader) and the AST generator

BADW = {'inf', 'nan', 'infinity', 'nil'}


def vocab(specs):
    from . import model, histgen
    from .protoxml import decode, enum_candidates
    P = histgen.protocols()
    V = {k: set() for k in ('conn', 'type', 'id', 'idgen', 'name', 'argname', 'int', 'float', 'str', 'label', 'label2', 'fd')}
    W = model.MWorld()
    winners = histgen.winners_map()
    for m in specs:
        if m.get('destroy'):
            W.close(m['conn'])
            continue
        rec = W.step(m)
        V['conn'].add(rec['conn'].name)
        t = rec['target']
        V['type'].add(t.iface); V['id'].add(t.id); V['name'].add(m['name'])
        V['idgen'].add((t.id, t.gen if t.gen is not None else 0))      # (an object never seen created: ask for incarnation a, which it is not)
        pm = P[t.iface].msg(m['name']) if t.iface in P and not (t.iface == 'wl_registry' and m['name'] == 'bind') else None
        for i, a in enumerate(m['args']):
            pa = pm.args[i] if pm is not None and i < len(pm.args) else None
            if pa is not None:
                V['argname'].add(pa.name)
            if a[0] in ('int', 'uint'):
                v = a[1] & 0xffffffff if a[0] == 'uint' else a[1]
                V['int'].add(v)
                if pa is not None and pa.enum:
                    for e in enum_candidates(P[t.iface], pa.enum, winners):
                        ls = decode(e, v)
                        for k, l in enumerate(ls):
                            if re.fullmatch(r'[\-_A-Za-z0-9]+', l) and not l[0].isdigit():
                                V['label'].add(l)
                                if k >= 1:
                                    V['label2'].add(l)      # non-first label of a multi-label value
            elif a[0] == 'fixed': V['float'].add(a[1] / 256.0)
            elif a[0] == 'fd': V['fd'].add(a[1])
            elif a[0] == 'str' and a[1] is not None: V['str'].add(a[1])
            elif a[0] == 'obj' and a[2] is None and a[1]: V['type'].add(a[1])
            o = rec['args'][i]
            if o is not None:
                V['type'].add(o.iface); V['id'].add(o.id); V['idgen'].add((o.id, o.gen if o.gen is not None else 0))
    V['type'].discard(None)
    return {k: sorted(v, key=repr) for k, v in V.items()}


def letters(n):
    n += 1
    s = ''
    while n > 0:
        n -= 1
        s = chr(97 + n % 26) + s
        n //= 26
    return s


class Gen:
    def __init__(self, d, V, max_depth=2, focus=None):
        self.focus = focus
        self.d = d
        self.V = V
        self.max_depth = max_depth

    def ident(self, pool, extra):
        d = self.d
        src = (self.V.get(pool) or extra) if d.chance(0.8) else extra
        w = str(d.choice(src))
        if d.chance(0.08) and len(w) > 3:
            # near miss: the literal text before and after the * overlaps in the word (`wl_s*surface` against `wl_surface`:
            # prefix `wl_s` and suffix `surface` both fit, but not one after the other)
            i = d.int(1, len(w) - 2)
            j = d.int(i + 1, len(w) - 1)
            w = w[:j] + '*' + w[i:]
        elif d.chance(0.3) and len(w) > 2:
            mode = d.int(0, 3)
            if mode == 1:       # near miss: matches a proper prefix of a vocabulary word only
                w = w[:d.int(2, len(w) - 1)]
            elif mode == 2:     # near miss: matches a proper suffix only
                w = w[d.int(1, len(w) - 2):]
            if mode == 3 and d.chance(0.5):
                pass            # plain proper prefix/suffix without a wildcard
            i = d.int(0, len(w) - 1)
            j = d.int(i, len(w))
            if not (mode == 3):
                w = w[:i] + '*' + w[j:]
            else:
                w = w[:max(1, len(w) - d.int(1, 3))]
        if w.lower() in BADW or w == '*' or not re.fullmatch(r'[\*\-_A-Za-z0-9]+', w) or w[0].isdigit() or w[0] == '-':
            w = 'wl_x'
        return ['id', w]

    def lst(self, f, depth):
        d = self.d
        if d.chance(0.25):
            # a bracketed list with its own exclusion next to another alternative: [[a ! b], c] - the inner exclusion
            # applies to a only
            inner = ['list', [f(depth + 2)], [f(depth + 2)]]
            return ['list', [inner] + [f(depth + 1) for _ in range(d.int(1, 2))], [f(depth + 1) for _ in range(d.int(0, 1))]]
        return ['list', [f(depth + 1) for _ in range(d.int(1, 3))], [f(depth + 1) for _ in range(d.int(0, 2))]]

    def text(self, pool, extra, depth=0):
        if depth < self.max_depth and self.d.chance(0.2):
            return self.lst(lambda dd: self.text(pool, extra, dd), depth)
        return self.ident(pool, extra)

    def obj(self, depth=0):
        d = self.d
        if depth < self.max_depth and d.chance(0.2):
            return self.lst(self.obj, depth)
        k = d.int(0, 2)
        if k == 0:
            return ['type', self.ident('type', ['wl_surface', 'xdg_toplevel', 'nope'])[1]]
        if k == 1:
            return ['id', d.choice(self.V['id'] + [99])]
        i, g = d.choice(self.V['idgen'])
        if d.chance(0.3):
            g = d.int(0, 3)
        return ['idgen', i, letters(g) if d.chance(0.85) else letters(g).upper()]

    def val(self, depth=0):
        d = self.d
        if depth < self.max_depth and d.chance(0.07):
            # "twins": two alternatives of different kind that are spelled alike - a quoted string and a bare word (type / label), a
            # quoted string and a number
            words = [x for x in (self.V.get('str') or []) if re.fullmatch(r'[A-Za-z_][A-Za-z0-9_]*', x) and x.lower() not in BADW] + [
                str(x) for x in (self.V.get('type') or [])[:4]] + [str(x) for x in (self.V.get('label') or [])[:4]]
            nums = [x for x in (self.V.get('int') or []) if 0 <= x < 100000][:6]
            if nums and (not words or d.chance(0.4)):
                n = d.choice(nums)
                pair = [['int', n], ['str', str(n)]]
            elif words:
                w = d.choice(words)
                pair = [['word', w], ['str', w]]
            else:
                pair = None
            if pair:
                if d.chance(0.5):
                    pair.reverse()
                return ['list', pair, []]
        if depth < self.max_depth and d.chance(0.15):
            return self.lst(self.val, depth)
        k = d.int(0, 4)
        if self.focus == 'args' and self.V.get('label') and d.chance(0.5):
            k = 3
        if k == 0:
            return ['int', d.choice(self.V.get('int', []) + [0, 1, 5] + self.V['id'])]
        if k == 1:
            if d.chance(0.35) and (self.V.get('int') or self.V.get('fd')):
                # a float spelling of an integer / fd that occurs: must select fixed-point arguments only
                return ['float', float(d.choice(self.V.get('int', []) + self.V.get('fd', [])))]
            fl = sorted(self.V.get('float', []))
            close = [x for i, x in enumerate(fl) if (i > 0 and x - fl[i - 1] < 0.01) or (i + 1 < len(fl) and fl[i + 1] - x < 0.01)]
            if close and d.chance(0.6):
                return ['float', d.choice(close)]       # one of two values that lie next to each other
            return ['float', d.choice(self.V.get('float', []) + [0.5, 7.0, 1.5])]
        if k == 2:
            ok = [x for x in self.V.get('str', []) if not set(x) & set('"()[]\t,!') and x == x.strip() and x]
            return ['str', d.choice(ok + ['zz'])]
        if k == 3:
            pool = 'label' if (self.V.get('label') and d.chance(0.65)) else 'type'
            if pool == 'label' and self.V.get('label2') and d.chance(0.5):
                pool = 'label2'
            return ['word', self.ident(pool, ['pressed', 'wl_buffer'])[1]]
        return ['nil']

    def arg(self, depth=0):
        d = self.d
        if depth < self.max_depth and d.chance(0.15):
            return self.lst(self.arg, depth)
        k = d.int(0, 2)
        name = self.text('argname', ['x', 'serial', 'surface'], depth) if k != 0 else None
        v = self.val(depth) if k != 1 else None
        return ['arg', name, v]

    def arg_pattern(self):
        """argument-focused pattern: [type][.name](items ! items) with label words and name= items"""
        d = self.d
        obj = ['type', self.ident('type', ['wl_seat'])[1]] if d.chance(0.3) else None
        name = self.text('name', ['capabilities']) if d.chance(0.3) else None
        args = [[self.arg() for _ in range(d.int(0, 2))], [self.arg() for _ in range(d.int(0, 1))]]
        if not args[0] and not args[1]:
            args = [[self.arg()], []]
        return ['msg', None, obj, name, args]

    def pattern(self):
        d = self.d
        if self.focus == 'args' and d.chance(0.7):
            return self.arg_pattern()
        k = d.int(0, 19)
        if k == 0:
            return ['star']
        conn = self.text('conn', ['A', 'B', 'Z']) if d.chance(0.25) else None
        if conn is not None and d.chance(0.15):
            # an exclusion in the connection part: every connection but one
            conn = ['list', [['id', '*']], [['id', d.choice((self.V.get('conn') or []) + ['A', 'B'])]]]
        if k < 7:
            return ['bare', conn, self.obj()]
        obj = self.obj() if d.chance(0.6) else None
        name = None
        if d.chance(0.7):
            if d.chance(0.3):
                name = ['id', d.choice(['new', 'destroyed'])]
            elif d.chance(0.15):
                name = ['list', [['id', d.choice(['new', 'destroyed'])], self.ident('name', ['commit'])], []]
            else:
                name = self.text('name', ['commit', 'motion'])
        args = None
        if d.chance(0.45) or (obj is None and name is None and conn is None):
            args = [[self.arg() for _ in range(d.int(0, 2))], [self.arg() for _ in range(d.int(0, 1))]]
            if not args[0] and not args[1]:
                args = [[self.arg()], []]
        if obj is None and name is None and args is None:
            name = self.text('name', ['commit'])
        return ['msg', conn, obj, name, args]

    def top(self):
        d = self.d
        if d.chance(0.03):
            return [[['bang']], []]
        pos = [self.pattern() for _ in range(d.int(1, 3))]
        neg = [p for p in (self.pattern() for _ in range(d.int(0, 2))) if p[0] != 'star']
        if d.chance(0.08):
            pos = [['star']]
        return [pos, neg]
