"""C01 - every libwayland debug line decodes to exactly the message it denotes.

Domain: message specs (wire.py) rendered in both dialects (+ comma locale, + queue/conn tags).
Oracle: the spec itself (round trip), and must-reject for lines that contain no message.
"""
import re, string
from .. import env, wire
from ..runner import Prop, Stage, Result

WORD0 = string.ascii_letters + '_'
WORD = string.ascii_letters + string.digits + '_'
NAMES = ['wl_surface', 'wl_display', 'xdg_toplevel', 'new', 'nil', 'array', 'fd', 'destroyed', 'id', 'x', '_', '_a9',
         'zwp_linux_dmabuf_v1', 'A', 'get_registry', 'delete_id', 'attach', 'e', 'inf', 'nan', 'discarded', 'unknown']
# printable text without '"' and '\\'
STR_ALPHA = ''.join(c for c in (string.ascii_letters + string.digits + string.punctuation + ' ') if c not in '"\\') + 'éü日ß€'
SEPS = [', ', ',', '(', ')', '[', ']', ' ', '  ', '()', '),', ', )', '@', '#', '.', ' -> ', '{', '}', '<', '>', '|']
LOOKALIKES = ['nil', '12', '-1', '-1.5', '0.00000000', '3,5', '1e5', 'fd 3', 'array', 'array[4]', 'wl_surface@3', 'wl_surface#3',
              'new id x@4', 'new id [unknown]#4', 'new id', '[unknown]', '', ' ', ' x', 'x ', ', ', 'a, b', '(', ')', 'f(1, 2)',
              'a@1.b()', 'x) y', '[q]', '{q} ', '<7> ', 'a.b', "it's", 'nil, nil']
EMBEDDED = ['[123.456]  -> a@1.b(', '[ 1.5] a#1.b(', '[1.0] {q} <2> x#3.y(1)', ' [1,0]  -> a@1.b(2', '} <1> b#2.g(1)', '} b#2.g(1', '}  -> b#2.g(1', '} <3>  -> x#1.y(', '}  -> x@1.y(',
            '[0.000] ', '[4.2]  -> ']
I32 = [0, 1, -1, 2, 7, 255, 256, -256, 65535, 2147483647, -2147483648, 2147483646, -2147483647, 1000000, 999]
U32 = [0, 1, 2, 255, 256, 65536, 4294967295, 4294967294, 2147483648, 2147483647, 0xff000000, 0xfeffffff, 4278190081]
TS_SHAPED = re.compile(r'\[\s*\d+[\.,]\d+\s*\]')


def gen_ident(d):
    if d.chance(0.6):
        return d.choice(NAMES)
    return d.text(WORD0, 1, 1) + d.text(WORD, 0, 12)


def gen_string(d, embedded_ok=True):
    k = d.int(0, 9)
    if k <= 1:
        return d.choice(LOOKALIKES)
    if k == 2 and embedded_ok:
        return d.text(STR_ALPHA, 0, 4) + d.choice(EMBEDDED) + d.text(STR_ALPHA, 0, 4)
    if k <= 5:
        parts = []
        for _ in range(d.int(1, 4)):
            parts.append(d.text(STR_ALPHA, 0, 6))
            parts.append(d.choice(SEPS))
        return ''.join(parts)[:40]
    return d.text(STR_ALPHA, 0, 40)


def gen_arg(d, embedded_ok=True):
    k = d.choice(['int', 'uint', 'fixed', 'str', 'str', 'obj', 'new', 'array', 'fd'])
    if k == 'int':
        return ['int', d.choice(I32) if d.chance(0.5) else d.int(-2**31, 2**31 - 1)]
    if k == 'uint':
        return ['uint', d.choice(U32) if d.chance(0.5) else d.int(0, 2**32 - 1)]
    if k == 'fixed':
        return ['fixed', d.choice(I32) if d.chance(0.5) else d.int(-2**31, 2**31 - 1)]
    if k == 'str':
        return ['str', None if d.chance(0.12) else gen_string(d, embedded_ok)]
    if k == 'obj':
        if d.chance(0.15):
            return ['obj', gen_ident(d), None]
        return ['obj', gen_ident(d), d.choice(U32[1:]) if d.chance(0.3) else d.int(1, 2**32 - 1)]
    if k == 'new':
        return ['new', None if d.chance(0.3) else gen_ident(d), d.choice(U32[1:]) if d.chance(0.3) else d.int(1, 2**32 - 1)]
    if k == 'array':
        return ['array', d.choice([0, 1, 4, 8, 64, 4096]) if d.chance(0.7) else d.int(0, 2**32 - 1)]
    return ['fd', d.int(0, 1023) if d.chance(0.8) else d.int(0, 2**31 - 1)]


def gen_spec(d, embedded_ok=True, max_args=20):
    nargs = d.choice([0, 1, 1, 2, 2, 3, 4, 5]) if d.chance(0.85) else d.int(6, max_args)
    return dict(
        conn=(str(d.choice([0, 1, 5, 261, 2**31 - 1]) if d.chance(0.5) else d.int(0, 2**31 - 1)) if d.chance(0.5) else None),
        t_us=d.choice([0, 1, 999, 1000, 1234567, 4294967295, 9999999999 & 0xffffffff, 1_000_000, 59_999_999]) if d.chance(0.4) else d.int(0, 2**32 - 1),
        sent=d.chance(0.5), iface=gen_ident(d), id=(d.choice(U32[1:]) if d.chance(0.3) else d.int(1, 2**32 - 1)),
        name=gen_ident(d), args=[gen_arg(d, embedded_ok) for _ in range(nargs)])


def strings_of(spec):
    return [a[1] for a in spec['args'] if a[0] == 'str' and a[1] is not None]


def renderings(case):
    spec, q = case['spec'], case.get('queue')
    out = [('old', wire.render(spec, 'old')), ('old-comma', wire.render(spec, 'old', comma=True)), ('new', wire.render(spec, 'new'))]
    if q is not None:
        out.append(('new-queue', wire.render(spec, 'new', queue=q)))
    return out


def arg_desc(a):
    from core import wl
    A = wl.Arg
    if type(a) is A.Int: return ('Int', a.value)
    if type(a) is A.Float: return ('Float', a.value)
    if type(a) is A.String: return ('String', a.value)
    if type(a) is A.Null: return ('Null',)
    if type(a) is A.Object: return ('New' if a.is_new else 'Object', a.obj.id, a.obj.type, a.obj.resolved())
    if type(a) is A.Array: return ('Array',)
    if type(a) is A.Fd: return ('Fd', a.value)
    if type(a) is A.Unknown: return ('Unknown', a.string)
    return (type(a).__name__,)


def expect_arg(a, rend):
    k = a[0]
    if k == 'int': return ('Int', a[1])
    if k == 'uint': return ('Int', a[1] & 0xffffffff)
    if k == 'fixed': return ('Float', a[1] / 256.0)
    if k == 'str': return ('Null',) if a[1] is None else ('String', a[1])
    if k == 'obj': return ('Null',) if a[2] is None else ('Object', a[2], a[1], False)
    if k == 'new': return ('New', a[2], a[1], False)
    if k == 'array': return ('Array',)
    if k == 'fd': return ('Fd', a[1])
    raise ValueError(k)


def shown_line(spec):
    """what the tool shows for a decoded but unresolvable message (exact current-dialect values)"""
    def show(a):
        k = a[0]
        if k == 'int': return str(a[1])
        if k == 'uint': return str(a[1] & 0xffffffff)
        if k == 'fixed': return str(a[1] / 256.0)
        if k == 'str': return 'null ??' if a[1] is None else repr(a[1])
        if k == 'obj': return 'null ??' if a[2] is None else 'unresolved %s@%d?' % (a[1], a[2])
        if k == 'new': return 'new unresolved %s@%d?' % (a[1] if a[1] is not None else '???', a[2])
        if k == 'array': return '[...]'
        return 'fd %d' % a[1]
    return ('→ ' if spec['sent'] else '') + 'unresolved %s@%d?.%s(' % (spec['iface'], spec['id'], spec['name']) + ', '.join(show(a) for a in spec['args']) + ')' + (
        '' if spec['sent'] else ' ↲')


def compare(res, spec, rend, line):
    """decode `line` and compare with the spec it was rendered from"""
    from backends.libwayland_debug_output import parse
    from core import wl
    wl.Message.base_time = None
    try:
        conn_id, msg = parse.message(line)
    except RuntimeError:
        res.bad('valid-line-rejected', 'rejected (%s): %r' % (rend, line))
        return None
    embedded = any(TS_SHAPED.search(s) for s in strings_of(spec))
    tag = ':embedded-timestamp' if embedded else (':embedded-brace' if any('} ' in s for s in strings_of(spec)) else '')
    if msg.sent != spec['sent']:
        res.bad('direction' + tag, '%r decoded sent=%r' % (line, msg.sent))
    if (msg.obj.type, msg.obj.id) != (spec['iface'], spec['id']) or msg.obj.resolved():
        res.bad('target' + tag, '%r decoded target %r@%r' % (line, msg.obj.type, msg.obj.id))
    if msg.name != spec['name']:
        res.bad('name' + tag, '%r decoded name %r' % (line, msg.name))
    bt = wl.Message.base_time
    if bt is None or abs(bt - (spec['t_us'] & 0xffffffff) / 1e6) > 2e-6 or msg.timestamp != 0:
        res.bad('timestamp' + tag, '%r decoded abs time %r' % (line, bt))
    if len(msg.args) != len(spec['args']):
        res.bad('argcount' + tag, '%r decoded %d args, denotes %d: %r' % (line, len(msg.args), len(spec['args']), [arg_desc(x) for x in msg.args]))
    else:
        for i, (got, a) in enumerate(zip(msg.args, spec['args'])):
            g, e = arg_desc(got), expect_arg(a, rend)
            ok = g == e
            if not ok and e[0] == 'Float' and g[0] == 'Float' and rend.startswith('old'):
                ok = abs(g[1] - e[1]) <= 0.5e-6 + abs(e[1]) * 2.0 ** -48   # %f keeps six decimals: the printer's tolerance (+ double rounding)
            if not ok:
                sub = ''
                if a[0] == 'str' and a[1] == '':
                    sub = ':empty'
                res.bad('arg:%s%s->%s%s' % (a[0], sub, g[0], tag), '%r arg %d decoded %r, denotes %r' % (line, i, g, e))
    # second observation point: the arguments shown on the output line for that message
    if rend == 'new' and not res.discs:
        exp = shown_line(spec)
        if str(msg) != exp:
            res.bad('shown-line' + tag, 'decoded message is shown as %r, the line denotes %r' % (str(msg), exp))
    return conn_id


class RoundTrip(Stage):
    name = 'roundtrip'

    def examples(self, tier):
        return 3000 if tier == 'quick' else 14 * 30000

    def gen(self, d, tier):
        spec = gen_spec(d)
        queue = None
        if d.chance(0.5):
            queue = d.choice(['Default Queue', 'Display Queue', 'q', '', 'a b', 'x#1.y(', '<5>', '[1.0]', 'worker{2}', 'a}b', '}', '{']) if d.chance(0.7) else d.text(
                ''.join(c for c in STR_ALPHA if c not in '{}'), 0, 12)
        tag2 = d.choice([None, spec['conn'], '7', str(d.int(0, 2**31 - 1))])
        return dict(spec=spec, queue=queue, tag2=tag2)

    def execute(self, case):
        from backends.libwayland_debug_output import parse
        env.reset_globals(protocols=False)
        res = Result()
        spec = case['spec']
        res.evals = 0
        for rend, line in renderings(case):
            res.evals += 1
            c1 = compare(res, spec, rend, line)
            if c1 is None:
                continue
            # relational check of the connection tag
            other = dict(spec, conn=case.get('tag2'), args=[])
            try:
                c2, _ = parse.message(wire.render(other, 'new' if rend.startswith('new') else 'old'))
            except RuntimeError:
                res.bad('valid-line-rejected', 'rejected: %r' % wire.render(other, 'new'))
                continue
            if (c1 == c2) != (spec['conn'] == case.get('tag2')):
                res.bad('conn-tag' + (':embedded-timestamp' if any(TS_SHAPED.search(s) for s in strings_of(spec)) else ''), 'tags %r/%r decoded as connection ids %r/%r' % (spec['conn'], case.get('tag2'), c1, c2))
            if spec['conn'] is not None and c1 != spec['conn'] and not res.discs:
                # the id of a tagged line is the tag (relationally: distinct tags distinct ids) - checked above
                pass
        strs = strings_of(spec)
        sep = any(any(c in s for c in ',()[] ') for s in strs)
        look = any(s in LOOKALIKES for s in strs)
        res.nontrivial = len(spec['args']) >= 2 or sep or look or spec['conn'] is not None or case.get('queue') is not None
        res.label('args>=2' if len(spec['args']) >= 2 else 'args<2')
        if len(spec['args']) > 5: res.label('args>5')
        if sep: res.label('string-with-separator')
        if look: res.label('lookalike-string')
        if any(TS_SHAPED.search(s) for s in strs): res.label('embedded-timestamp')
        if spec['conn'] is not None: res.label('conn-tag')
        if case.get('queue') is not None: res.label('queue-tag')
        for a in spec['args']:
            res.label('kind:' + a[0] + (':nil' if a[-1] is None and a[0] in ('str', 'obj') else ''))
        res.sample = dict(lines=[l for _, l in renderings(case)][:2])
        return res


class LineLoop(Stage):
    """the same lines through the tool's line loop (file-like reader): each message line must come out as exactly the
    message it denotes, however long it is and whatever surrounds it"""
    name = 'line-loop'

    def examples(self, tier):
        return 300 if tier == 'quick' else 14 * 3000

    def gen(self, d, tier):
        specs = []
        for _ in range(d.int(1, 5)):
            sp = gen_spec(d, max_args=8)
            sp['iface'] = 'zz_' + sp['iface']        # never a described interface: shown undecorated whatever the message is
            if sp['iface'] == 'zz_wl_registry' or sp['name'] in ('bind', 'delete_id'):
                sp['name'] = 'frob'
            for a in sp['args']:
                if a[0] == 'new':
                    a[1] = None        # untyped: creates nothing, so every object mention stays unresolved and the shown line is fixed
                if a[0] in ('new', 'obj') and a[2] == 1:
                    a[2] = 2           # id 1 is the connection's wl_display, which does exist
                if a[0] == 'str' and a[1] is not None and d.chance(0.15):
                    a[1] = (a[1] or 'x') * d.choice([300, 1200, 5000])
                    a[1] = a[1][:d.choice([4000, 4080, 4096, 5000, 9000])]
            specs.append(sp)
        # what the program itself prints between the messages (unbalanced quotes and brackets included) must not touch them
        from .c08 import gen_chatter
        chatter = [[gen_chatter(d)[:200] for _ in range(d.int(1, 2))] if d.chance(0.3) else [] for _ in specs]
        return dict(specs=specs, queue=d.choice([None, 'Default Queue', 'q']), final_newline=d.chance(0.7), chatter=chatter)

    def execute(self, case):
        from .. import session
        res = Result()
        specs = case['specs']
        lines = [wire.render(sp, 'new', queue=case.get('queue')) for sp in specs]
        items = []
        chatter = case.get('chatter') or [[] for _ in lines]
        for k, l in enumerate(lines):
            for c in chatter[k]:
                items.append(['line', c, 'chatter'])
            items.append(['line' if (k < len(lines) - 1 or case['final_newline']) else 'raw', l])
        s = session.Session()
        segs = s.run(items)
        segs = [g for g in segs if g.kind in ('line', 'raw') and len(s.io.items[g.index]) < 3]
        res.evals = len(specs)
        for sp, line, seg in zip(specs, lines, segs):
            shown = [l for l in seg.out_lines() if session.MSG_LINE.match(l)]
            if len(shown) != 1:
                res.bad('line-loop:not-exactly-one-message', '%d-character line %r... produced %d message lines (%r)' % (len(line), line[:80], len(shown), seg.out_lines()[:2]))
                continue
            body = session.MSG_LINE.match(shown[0]).group(3)
            if body != shown_line(sp):
                res.bad('line-loop:shown-line', 'shown %r..., denotes %r...' % (body[:160], shown_line(sp)[:160]))
        res.nontrivial = any(len(l) > 1000 for l in lines) or len(specs) > 1
        if any(len(l) > 4096 for l in lines): res.label('line>4096')
        if any(case.get('chatter') or []): res.label('chatter-between-messages')
        res.sample = dict(lengths=[len(l) for l in lines], first=lines[0][:120])
        return res


class Described(Stage):
    """protocol-aware histories (described interfaces, binds, deletes, messages newer than the shipped descriptions, nil and
    array arguments) through the whole pipeline: the recorded message of every line must still be the message the line
    denotes (direction, target id, name, argument kinds and values) once resolution against the descriptions has run"""
    name = 'described'

    def examples(self, tier):
        return 250 if tier == 'quick' else 14 * 2500

    def gen(self, d, tier):
        from .. import histgen
        profile = dict(reuse=0.4, server_reuse=0.3, weights=dict(repeat=4, delete=8, bind=12, message=30, server_event=10, deep=2, sync=3, enum=8, title=3,
                                                               retype=3, newer=14, nulls=8, arrays=6, kinds=8, freeform=6, midsession=6, foreign=7, long_line=4))
        specs = histgen.history(d, nconn=d.int(1, 2), nmsg=d.int(4, 30), profile=profile)
        return dict(dialect=d.choice(['new', 'new', 'old']), specs=specs)

    def execute(self, case):
        from .. import session, histgen
        res = Result()
        specs, dialect = case['specs'], case.get('dialect', 'new')
        s = session.run_history(specs, dialect)
        got = s.messages()
        res.evals = len(specs)
        if s.err.buffer:
            res.bad('described:error-stream', 'error stream: %r' % s.err.buffer[-300:])
        if len(got) != len(specs):
            res.bad('described:message-count', '%d message lines went in, %d messages were recorded' % (len(specs), len(got)))
        for sp, m in zip(specs, got):
            line = wire.render(sp, dialect)
            rel = ((sp['t_us'] & 0xffffffff) - (specs[0]['t_us'] & 0xffffffff)) / 1e6
            if abs(m.timestamp - rel) > 2e-6:
                res.bad('described:time', '%r recorded at %r s after the first message, the lines say %r' % (line, m.timestamp, rel))
                break
            if m.sent != sp['sent'] or m.obj.id != sp['id'] or m.name != sp['name']:
                res.bad('described:head', '%r recorded as %s' % (line, str(m)))
                break
            if m.obj.type is not None and m.obj.type != sp['iface']:
                # whatever the id is known as from earlier lines, the message on this line is on the interface the line says
                res.bad('described:target-interface', '%r recorded as a message on %s: %s' % (line, m.obj.type, str(m)))
                break
            if len(m.args) != len(sp['args']):
                res.bad('described:argcount', '%r recorded with %d arguments: %s' % (line, len(m.args), str(m)))
                break
            for i, (g, a) in enumerate(zip(m.args, sp['args'])):
                g, e = arg_desc(g), expect_arg(a, dialect)
                if g[0] in ('Object', 'New'): g = g[:2]
                if e[0] in ('Object', 'New'): e = e[:2]
                ok = g == e
                if not ok and e[0] == 'Float' and g[0] == 'Float' and dialect == 'old':
                    ok = abs(g[1] - e[1]) <= 0.5e-6 + abs(e[1]) * 2.0 ** -48
                if not ok:
                    res.bad('described:arg:%s->%s' % (a[0], g[0]), '%r argument %d recorded as %r, denotes %r' % (line, i, g, e))
        labels = histgen.labels_of(specs)
        for l in labels:
            res.label(l)
        res.nontrivial = len(specs) >= 4
        res.sample = dict(dialect=dialect, lines=[wire.render(m, dialect) for m in specs[:8]], n=len(specs))
        return res


class ManyTags(Stage):
    """more than a thousand different <connection> tags in one stream: lines carrying different tags are decoded as messages of
    different connections, lines carrying the same tag as messages of the same one"""
    name = 'many-tags'

    def examples(self, tier):
        return 5 if tier == 'quick' else 14 * 3

    def gen(self, d, tier):
        return dict(n=d.choice([d.int(1001, 1040), d.int(1001, 1040), d.int(703, 760)]), extra_every=d.choice([1, 7, 97]))

    def execute(self, case):
        from .. import session
        from .c04 import many_tags_specs
        res = Result()
        specs = many_tags_specs(case['n'], case['extra_every'])
        s = session.run_history(specs, 'new')
        got = s.messages()
        res.evals = len(specs)
        if len(got) != len(specs):
            res.bad('many-tags:message-count', '%d message lines went in, %d messages were recorded' % (len(specs), len(got)))
            return res
        by_tag, by_name = {}, {}
        for sp, m in zip(specs, got):
            name = m.obj.connection.name() if m.obj.connection is not None else None
            if by_tag.setdefault(sp['conn'], name) != name:
                res.bad('many-tags:one-tag-two-connections', 'lines tagged <%s> are shown on connections %s and %s' % (sp['conn'], by_tag[sp['conn']], name))
                break
            if by_name.setdefault(name, sp['conn']) != sp['conn']:
                res.bad('many-tags:two-tags-one-connection', 'lines tagged <%s> and <%s> are both shown as messages of connection %s (%d tags in the stream)' % (
                    by_name[name], sp['conn'], name, case['n']))
                break
        res.nontrivial = True
        res.label('tags>=1001' if case['n'] >= 1001 else 'tags>=703')
        res.sample = dict(case)
        return res


CHATTER = string.ascii_letters + string.digits + ' .,:;()[]{}<>@#-_=+*/!?\'|~%&$^`éü'


CHATTER_TOKENS = ['\x1b[1;31mERROR\x1b[0m:', '\x1b[33mwarn\x1b[m', 'name\tvalue', 'col1\tcol2\tcol3', 'a\t\tb', 'can not open "theme.css', '"', 'say "hi', '[unclosed', 'f(x', "it's", '[12]', '[1.5', '1.5]', '12.345', '->', ' -> ', 'a@1.b()', 'wl_surface@3.commit()', 'x#2.f(1, 2)', '(', ')', '[', ']', '{q}', '<3>',
                  'error:', 'Gtk-WARNING **:', '(process:123):', 'libEGL', 'warning', '12:34:56.789', '[info]', '[ 1 ]', '[a.b]', 'new id x@3',
                  'nil', 'fd 3', '"quoted"', 'wl_display@1.error(', 'discarded', '[.5]', '[5.]', '[1.2.3]', '[1,2', 'f()', 'a.b()', 'a@b.c()']


class NonMessages(Stage):
    """Lines that contain no message by an independent definition must raise RuntimeError."""
    name = 'nonmessage'

    def examples(self, tier):
        return 1500 if tier == 'quick' else 14 * 10000

    def gen(self, d, tier):
        k = d.weighted([(6, 'chatter'), (1, 'blank'), (2, 'drop-paren'), (2, 'drop-timestamp'), (2, 'drop-name'), (2, 'drop-id'),
                        (2, 'drop-open'), (2, 'no-space')])
        if k == 'chatter':
            toks = []
            for _ in range(d.int(1, 8)):
                toks.append(d.choice(CHATTER_TOKENS) if d.chance(0.6) else d.text(CHATTER, 0, 12))
            t = d.choice(['', ' ', '']).join(toks) if d.chance(0.3) else ' '.join(toks)
            # independent definition of "no message": no timestamp-shaped token at all
            t = TS_SHAPED.sub('[]', t)
            return dict(kind=k, line=t)
        if k == 'blank':
            return dict(kind=k, line=d.choice(['', ' ', '\t', '   ']))
        spec = gen_spec(d, embedded_ok=False, max_args=6)
        for a in spec['args']:
            if a[0] == 'str' and a[1] is not None:
                a[1] = TS_SHAPED.sub('', a[1]).replace(')', '').replace('(', '').replace('@', '').replace('#', '')
        dialect = d.choice(['old', 'new'])
        if k == 'no-space':
            spec['sent'] = False
            spec['conn'] = None
        line = wire.render(spec, dialect)
        sep = '@' if dialect == 'old' else '#'
        head = '%s%s%d.%s(' % (spec['iface'], sep, spec['id'], spec['name'])
        i = line.index(head)
        if k == 'drop-paren':
            line = line[:-1]
        elif k == 'drop-timestamp':
            line = line[line.index(']') + 1:]
        elif k == 'drop-name':
            line = line[:i] + '%s%s%d(' % (spec['iface'], sep, spec['id']) + line[i + len(head):]
        elif k == 'drop-id':
            line = line[:i] + '%s.%s(' % (spec['iface'], spec['name']) + line[i + len(head):]
        elif k == 'drop-open':
            line = line[:i] + head[:-1] + line[i + len(head):]
        elif k == 'no-space':
            # "[ts]iface@..." - libwayland always prints a blank after the bracket
            j = line.index(']')
            line = line[:j + 1] + line[j + 1:].lstrip(' ')
        return dict(kind=k, line=line)

    def execute(self, case):
        from backends.libwayland_debug_output import parse
        env.reset_globals(protocols=False)
        res = Result()
        line = case['line'].strip()
        try:
            r = parse.message(line)
            res.bad('nonmessage-accepted:' + case['kind'], '%r reported as message %s' % (line, str(r[1])))
        except RuntimeError:
            pass
        res.nontrivial = case['kind'] not in ('blank',) and len(line) > 3
        res.label(case['kind'])
        res.sample = case
        return res


class C01(Prop):
    id = 'C01'
    rule = ('roundtrip: a message spec (iface, id, name, direction, 32-bit time, 0..20 args of every kind) drawn by Hypothesis is '
            'printed by a port of wl_closure_print in old/old-comma/current(/queue) form and decoded; non-trivial = >=2 arguments, or a '
            'string with a separator character or a look-alike string, or a connection/queue tag; distinct by SHA-1 of the case. '
            'nonmessage: chatter without timestamp-shaped token, blanks and near-misses of valid lines; non-trivial = not blank. line-loop: 1-5 such lines '
            '(strings up to 9000 characters) through the line loop and the live view; the shown line must be the message the line denotes. described: protocol-aware histories (histgen, incl. messages newer than the shipped XML, nil/array/enum arguments) through the whole pipeline; the recorded message of every line is compared field by field with the spec; non-trivial = >= 4 lines. many-tags: streams of 703..1040 different connection tags, tags and connections must correspond one to one. described histories also contain lines naming an id under another interface than its holder\'s (the recorded target interface must be the line\'s) and lines longer than 4096 characters.')
    assumptions = ['wire.py is a faithful port of libwayland wl_closure_print (old dialect checked byte-for-byte against the shipped sample logs)',
                   'strings exclude \'"\' and backslash, ids exclude 0, no `discarded` lines (stated bounds of the property)']
    stages = [RoundTrip(), NonMessages(), LineLoop(), Described(), ManyTags()]


PROP = C01()
