"""C15 - GDB mode follows libwayland's connections as they come and go."""
from .. import env, gdbsim, pluginmachine as pm, wire
from ..runner import Prop, Stage, Result

WEIGHTS = dict(delete=12, bind=12, message=50, server_event=8, sync=10, enum=4, title=2, retype=2)


class Machine(Stage):
    name = 'plugin-machine'
    kind = 'machine'

    def examples(self, tier):
        return 300 if tier == 'quick' else 14 * 2500

    def steps(self, tier):
        return 40 if tier == 'quick' else 80

    def machine(self, col, tier):
        return pm.make_machine(col, self, tier, False, True, WEIGHTS)

    def finish(self, case, res):
        ops = case['ops']
        seen, closed = set(), set()
        reuse = never_seen = twice = other_thread = False
        threads = {}
        for o in ops:
            if o[0] == 'msg':
                if o[1] in closed: reuse = True
                seen.add(o[1]); closed.discard(o[1])
                if o[1] in threads and threads[o[1]] != o[2]: other_thread = True
                threads.setdefault(o[1], o[2])
            elif o[0] == 'destroy':
                if o[1] not in seen: never_seen = True
                elif o[1] in closed: twice = True
                closed.add(o[1])
                threads.pop(o[1], None)
        res.nontrivial = reuse or never_seen
        if reuse: res.label('address-reused-after-destroy')
        if never_seen: res.label('destroy-of-never-seen-connection')
        if twice: res.label('destroy-of-already-closed-connection')
        if other_thread: res.label('message-from-other-thread')
        if len(seen) > 1: res.label('multi-connection')
        res.sample = [[o[0], o[1], o[2]] + ([o[3]['target_iface'] + '.' + o[3]['name']] if o[0] == 'msg' else []) for o in ops[:16]]

    def execute(self, case):
        res = pm.replay(case, False, True)
        self.finish(case, res)
        return res


class ThousandConnections(Stage):
    """a compositor that has seen more than a thousand clients: wl_connection addresses are destroyed and handed out again
    1001..1040 times while one early connection stays open; every connection gets the next name (the 1000th is ALL, then ALM),
    its own notices and a fresh table"""
    name = 'thousand-connections'

    def examples(self, tier):
        return 3 if tier == 'quick' else 14 * 3

    def gen(self, d, tier):
        return dict(n=d.int(1001, 1040), addrs=d.choice([[4], [4, 6], [4, 6, 7]]), side=d.choice(['server', 'server', 'client']), second=d.chance(0.5))

    def execute(self, case):
        from .. import histgen
        P = histgen.protocols()
        ops = []
        t = [0]

        def first(addr, side):
            t[0] += 1000
            m = dict(conn=None, t_us=t[0], sent=(side == 'client'), iface='wl_display', id=1, name='get_registry', args=[['new', 'wl_registry', 2]])
            ops.append(['msg', addr, 1, dict(gdbsim.closure_of_message(m, side, addr, P['wl_display'].msg('get_registry')), thread_name='main')])

        def sync(addr, side):
            t[0] += 1000
            m = dict(conn=None, t_us=t[0], sent=(side == 'client'), iface='wl_display', id=1, name='sync', args=[['new', 'wl_callback', 3]])
            ops.append(['msg', addr, 1, dict(gdbsim.closure_of_message(m, side, addr, P['wl_display'].msg('sync')), thread_name='main')])
        first(5, case['side'])                 # stays open all the time
        for k in range(case['n']):
            addr = case['addrs'][k % len(case['addrs'])]
            first(addr, case['side'])
            if case['second'] and k % 7 == 0:
                sync(addr, case['side'])
            if k % 211 == 0:
                sync(5, case['side'])
            ops.append(['destroy', addr, 1, False])
        sync(5, case['side'])
        res = pm.replay(dict(ops=ops, break_text=None), False, True)
        res.nontrivial = True
        res.label('connections>=1001')
        res.sample = dict(case)
        return res


class RealGdb(Stage):
    """message/destroy sequences on a generated C mock under the real gdb with the unmodified plugin: the
    connection list it ends with must be the one the stand-in run (and the model) ends with"""
    name = 'real-gdb'

    def examples(self, tier):
        return 6 if tier == 'quick' else 14 * 30

    def gen(self, d, tier):
        from .. import histgen
        gens, ops, t = {}, [], 0
        for _ in range(d.int(4, 24)):
            if d.chance(0.25):
                addr = d.int(0, 3)
                gens.pop(addr, None)
                ops.append(['destroy', addr, 1])
                continue
            addr = d.int(0, 2)
            g = gens.get(addr)
            if g is None:
                g = gens[addr] = histgen.ConnGen(None, d.choice(['client', 'server']), dict(reuse=0.6, weights=WEIGHTS))
            t += histgen.next_gap(d)
            m = g.next(d)
            m['conn'] = None
            m['t_us'] = t
            P = histgen.protocols()
            decl = P[m['iface']].msg(m['name']) if m['iface'] in P and not (m['iface'] == 'wl_registry' and m['name'] == 'bind') else None
            ops.append(['msg', addr, 1, gdbsim.closure_of_message(m, g.side, addr, decl)])
        return dict(break_text=None, ops=ops)

    def execute(self, case):
        from .. import gdbreal, cli
        res = Result()
        steps = [dict(kind='destroy', conn=o[1]) if o[0] == 'destroy' else dict(o[3], conn=o[1]) for o in case['ops']]
        with cli.Scratch() as sc:
            r = gdbreal.run_steps(steps, sc)
        if r['status'].startswith('skipped'):
            res.label('real-gdb-' + r['status'][:40])
            return res
        if r['status'] != 'ok':
            from ..runner import HarnessError
            raise HarnessError(r['status'])
        if len(r['records']) != len(steps) or 'Error while executing Python code' in r.get('gdb_output', ''):
            res.bad('real-gdb:exception-out-of-stop()', '%d of %d steps reached the plugin; gdb said %r' % (len(r['records']), len(steps), r.get('gdb_output', '')[-400:]))
            return res
        ex = pm.PluginExec(None, False, True)
        try:
            for op in case['ops']:
                ex.apply(op, res)
            sim = [[c.name(), c.is_open(), len(c.messages())] for c in ex.drv.cm.connections()]
            sim_out = [l for l in ex.drv.out.buffer.split('\n') if l.startswith('New ') or l.startswith('Closed ')]
        finally:
            ex.close()
        real_out = [l for l in r['out'].split('\n') if l.startswith('New ') or l.startswith('Closed ')]
        if sim != r['connections']:
            res.bad('real-gdb:connection-list', 'real gdb ends with %r, stand-in with %r' % (r['connections'], sim))
        if sim_out != real_out:
            res.bad('real-gdb:notices', 'real gdb printed %r, stand-in %r' % (real_out, sim_out))
        self_finish = Machine.finish
        self_finish(self, case, res)
        res.label('real-gdb-ran')
        return res


class Scenarios(Stage):
    """short scripted situations the free-running machine reaches too rarely to be relied on (off-thread-percent, reuse-other-thread, selection-survives-destroy), each with drawn details, run
    through the same executor and judged by the same model"""
    name = 'scenarios'
    KINDS = ['off-thread-percent', 'reuse-other-thread', 'selection-survives-destroy']

    def examples(self, tier):
        return 80 if tier == 'quick' else 14 * 400

    def gen(self, d, tier):
        from .. import runner
        return pm.scenario_case(d, d.choice(self.KINDS), WEIGHTS)

    def execute(self, case):
        res = pm.replay(case, False, True)
        res.nontrivial = True
        res.label('scenario:' + case.get('scenario', '?'))
        res.sample = dict(scenario=case.get('scenario'), ops=[[o[0], o[1], o[2] if o[0] != 'msg' else o[3]['target_iface'] + '.' + o[3]['name']] for o in case['ops'][:14]])
        return res


class C15(Prop):
    id = 'C15'
    rule = ('Hypothesis rule-based machine on the real Plugin + Controller + ConnectionManager over a gdb stand-in: rules = a generated '
            'message on one of 4 wl_connection addresses from one of 3 threads (through the plugin\'s breakpoint stop()), destruction of one of 5 '
            'addresses (known, already closed, never seen) with the address handed out again afterwards, user commands; after every step: one '
            'New notice exactly when an unknown address speaks (next name), one Closed notice exactly when a known one is destroyed, connection '
            'list / open flags / roles / per-connection message counts equal the model, nothing raised out of stop(). real-gdb: message/destroy sequences compiled into a C mock of libwayland and run under the real '
            'gdb with the unmodified plugin, final connection list and notices compared with the stand-in run. non-trivial = history with a '
            'destroy followed by reuse of the address, or a destroy of a never-seen address; distinct by SHA-1 of the op list. thousand-connections: 1001..1040 connections at 1-3 addresses destroyed and handed out again while one early connection stays open. After every destroy the list of connections must still mark the connection the user selected.')
    assumptions = ['fakegdb stand-in for the gdb module (cross-checked against real gdb 13 on a generated C mock: stage real-gdb here and in C09)',
                   'address reuse is modelled as a new wl_connection object with the same numeric address']
    stages = [Machine(), Scenarios(), ThousandConnections(), RealGdb()]


gdbsim.install()
PROP = C15()
