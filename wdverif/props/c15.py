"""C15 - GDB mode follows libwayland's connections as they come and go."""
from .. import env, gdbsim, pluginmachine as pm, wire
from ..runner import Prop, Stage, Result

WEIGHTS = dict(delete=12, bind=12, message=50, server_event=8, sync=10, enum=4, title=2, retype=2)


class Machine(Stage):
    name = 'plugin-machine'
    kind = 'machine'

    def examples(self, tier):
        return 300 if tier == 'quick' else 14 * 2500

    def steps(self, tier):
        return 40 if tier == 'quick' else 80

    def machine(self, col, tier):
        return pm.make_machine(col, self, tier, False, True, WEIGHTS)

    def finish(self, case, res):
        ops = case['ops']
        seen, closed = set(), set()
        reuse = never_seen = twice = other_thread = False
        threads = {}
        for o in ops:
            if o[0] == 'msg':
                if o[1] in closed: reuse = True
                seen.add(o[1]); closed.discard(o[1])
                if o[1] in threads and threads[o[1]] != o[2]: other_thread = True
                threads.setdefault(o[1], o[2])
            elif o[0] == 'destroy':
                if o[1] not in seen: never_seen = True
                elif o[1] in closed: twice = True
                closed.add(o[1])
                threads.pop(o[1], None)
        res.nontrivial = reuse or never_seen
        if reuse: res.label('address-reused-after-destroy')
        if never_seen: res.label('destroy-of-never-seen-connection')
        if twice: res.label('destroy-of-already-closed-connection')
        if other_thread: res.label('message-from-other-thread')
        if len(seen) > 1: res.label('multi-connection')
        res.sample = [[o[0], o[1], o[2]] + ([o[3]['target_iface'] + '.' + o[3]['name']] if o[0] == 'msg' else []) for o in ops[:16]]

    def execute(self, case):
        res = pm.replay(case, False, True)
        self.finish(case, res)
        return res


class C15(Prop):
    id = 'C15'
    rule = ('Hypothesis rule-based machine on the real Plugin + Controller + ConnectionManager over a gdb stand-in: rules = a generated '
            'message on one of 4 wl_connection addresses from one of 3 threads (through the plugin\'s breakpoint stop()), destruction of one of 5 '
            'addresses (known, already closed, never seen) with the address handed out again afterwards, user commands; after every step: one '
            'New notice exactly when an unknown address speaks (next name), one Closed notice exactly when a known one is destroyed, connection '
            'list / open flags / roles / per-connection message counts equal the model, nothing raised out of stop(). non-trivial = history with a '
            'destroy followed by reuse of the address, or a destroy of a never-seen address; distinct by SHA-1 of the op list.')
    assumptions = ['fakegdb stand-in for the gdb module (cross-checked against real gdb on a generated mock in the thorough tier of C09)',
                   'address reuse is modelled as a new wl_connection object with the same numeric address']
    stages = [Machine()]


gdbsim.install()
PROP = C15()
