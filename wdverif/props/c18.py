"""C18 - no input makes the tool fail with an unhandled error."""
import os, re, json, string
from .. import env, cli, histgen, session, wire
from ..runner import Prop, Stage, Result

PROFILE = dict(reuse=0.6, weights=dict(newer=4, delete=14, bind=14, message=46, server_event=8, sync=6, enum=14, title=6))
MATCHER_ALPHA = '[]()!,.:=@#"*~ \t-_'
WORDS = ['wl_surface', 'wl_*', 'commit', 'new', 'destroyed', 'nil', '5', '5a', '12B', 'A', 'B', 'x', '0', '1.5', '-1', 'inf', 'nan', '1e999', 'é', 'ß3', '3é', '@', 'unknown',
         '99999999999999999999', '0x10', 'name', 'id', '"s"', '""', "'", 'Ａ', '٣', '²']
UNI = 'éßλ日ａ٣²​́\U0001f600\x00\x7f\x1b'
LINE_TOKENS = ['[', ']', '(', ')', '{', '}', '<', '>', '@', '#', '.', ', ', ',', ' -> ', '  -> ', '"', '\\', '\\"', 'nil', 'new id ', '[unknown]', 'fd ', 'array', 'array[',
               '0', '1', '2', '-1', '4294967295', '4278190080', '1e999', 'nan', 'inf', '-inf', '1,5', '0.00000000', 'wl_display', 'wl_registry', 'delete_id', 'bind',
               'get_registry', 'sync', 'set_title', 'set_app_id', 'get_layer_surface', 'discarded ', '[1.0] ', '[ 2.5]', '9' * 400, 'é', '\t', ' ', '\x1b[0m', '\x00']


def esc_frames(text):
    """(type, innermost repo frame) of tracebacks printed by the tool (counted, see DESIGN: not a violation of the statement)"""
    out = []
    for m in re.finditer(r'Traceback \(most recent call last\):\n((?:  .*\n)+)(\w+)', text):
        files = re.findall(r'File "([^"]+)", line \d+, in (\w+)', m.group(1))
        f = files[-1] if files else ('?', '?')
        out.append('%s@%s:%s' % (m.group(2), os.path.basename(f[0]), f[1]))
    return out


def mutate_line(d, line):
    k = d.int(0, 11)
    if not line:
        return d.choice(LINE_TOKENS)
    i = d.int(0, len(line) - 1)
    j = d.int(i, min(len(line), i + 12))
    if k == 0: return line[:i] + line[j:]
    if k == 1: return line[:i] + line[i:j] * 2 + line[j:]
    if k == 2: return line[:i] + d.choice(LINE_TOKENS) + line[i:]
    if k == 3: return line[:i] + d.choice(LINE_TOKENS) + line[j:]
    if k == 4: return line[:i] + d.text(UNI + string.printable, 0, 6) + line[j:]
    if k == 5: return re.sub(r'\d+', lambda m: d.choice(['0', '1', '2', '3', '4278190080', '99999999999999999999999', '-5', '1e999', '']), line, count=d.int(1, 3))
    if k == 6: return line[:j][::-1] + line[j:]
    if k == 10:
        # an object id of 0 (target, object argument or new id) or an id / integer with thousands of digits
        big = d.choice(['0', '0', '00', '9' * 4301, '1' + '0' * 5000])
        return re.sub(r'([@#])\d+', lambda m: m.group(1) + big, line, count=d.int(1, 2)) if d.chance(0.7) else re.sub(r'([(,] ?)\d+(?=[,)])', lambda m: m.group(1) + big, line, count=1)
    if k == 11:
        return re.sub(r'\d+(?=[,)])', lambda m: d.choice(['-0', '+5', '0x10', '1_000', '٣', '1e3', '.5', '5.']), line, count=1)
    if k == 7: return line + d.choice(LINE_TOKENS)
    if k == 8: return d.choice(LINE_TOKENS) + line
    return line.replace(d.choice(['(', ')', '@', '#', '.', ', ', '"', ' ']), d.choice(LINE_TOKENS), 1)


class Lines(Stage):
    """mutated and arbitrary text lines through parse.into_sink (in-process)"""
    name = 'lines'

    def examples(self, tier):
        return 1200 if tier == 'quick' else 14 * 12000

    def gen(self, d, tier):
        dialect = d.choice(['new', 'old'])
        specs = histgen.history(d, nconn=d.int(1, 2), nmsg=d.int(1, 10), profile=PROFILE)
        lines = [wire.render(m, dialect) for m in specs]
        out = []
        for l in lines:
            r = d.int(0, 9)
            if r <= 4:
                out.append(l)
            elif r <= 7:
                x = l
                for _ in range(d.int(1, 3)):
                    x = mutate_line(d, x)
                out.append(x)
            elif r == 8:
                out.append(''.join(d.choice(LINE_TOKENS) for _ in range(d.int(1, 10))))
            else:
                out.append(d.text(UNI + string.printable, 0, 40))
        if d.chance(0.3):
            i = d.int(0, len(out) - 1)
            out[i] = out[i] + out[d.int(0, len(out) - 1)]           # two lines spliced into one
        final = d.chance(0.7)
        return dict(lines=[x.replace('\n', ' ').replace('\r', ' ') for x in out], final_newline=final)

    def execute(self, case):
        res = Result()
        lines = case['lines']
        items = [['line', l] for l in lines[:-1]] + ([['line', lines[-1]]] if case['final_newline'] else [['raw', lines[-1]]])
        items = [i for i in items if not (i[0] == 'raw' and i[1] == '')]
        s = session.Session()
        s.run(items)            # an exception escaping into_sink is bucketed by the runner (type, innermost repo frame)
        out = s.out.buffer
        opened = len(re.findall(r'^New (?:client|server|unknown type) connection ', out, re.M))
        closed = len(re.findall(r'^Closed (?:client|server|unknown type) connection ', out, re.M))
        if opened != closed:
            res.bad('connections-not-all-closed', '%d opened, %d closed for %r' % (opened, closed, lines))
        for f in esc_frames(out):
            res.count('internal-error-printed-and-survived:' + f)
        nmsg = len(s.ctl.all_messages)
        res.nontrivial = 0 < nmsg and any(('|  ' in l) for l in out.split('\n'))
        res.label('some-lines-decoded' if nmsg else 'nothing-decoded')
        if 'Traceback' in out: res.label('catch-all-hit')
        res.evals = len(lines)
        res.sample = lines[:5]
        return res


def adversarial_messages():
    """messages of every shape a matcher can be evaluated on (untyped, unresolved, every kind, unnamed)"""
    from core import wl
    from core.wl.object import MockObject
    from core.wl.message import MockMessage
    A = wl.Arg
    class FakeConn:
        def name(self): return 'B'
    arr = A.Array([A.Int(1), A.Int(2)])
    arr.name = 'states'
    lab = A.Int(3)
    lab.labels = ['pointer', 'keyboard']
    lab.name = 'capabilities'
    named = A.String('x')
    named.name = 'title'
    objs = [MockObject(FakeConn(), 0.0, 5, 1, 'wl_surface'), MockObject(None, 0.0, 7, 0, None), wl.UnresolvedObject(9, 'wl_x'), wl.UnresolvedObject(4278190080, None)]
    msgs = []
    argsets = [(), (A.Int(0), A.Int(-1), A.Int(2**32)), (A.Float(1.5), A.Float(float('inf')), A.Float(float('nan')), A.Float(-0.0), A.Float(1e300)),
               (A.String(''), A.String('wl_surface@5'), named), (A.Null(), A.Null('wl_buffer')), (A.Object(objs[0], False), A.Object(objs[2], True), A.Object(objs[1], True)),
               (A.Fd(3), A.Array(), arr, A.Unknown('?!'), A.Unknown()), (lab,)]
    for i, args in enumerate(argsets):
        msgs.append(MockMessage(0.5 * i, objs[i % len(objs)], bool(i % 2), ['commit', 'new', 'destroyed', 'delete_id', '', 'x' * 50][i % 6], args,
                                objs[(i + 1) % len(objs)] if i % 3 == 0 else None))
    return msgs


ATOMS18 = ['wl_*', '*', '*_x', 'wl_surface', '5', '5a', '7B', '0', '-1', '1.5', 'nil', '"s"', '""', 'new', 'destroyed', 'x', 'A', 'B', 'unknown', 'pointer', 'key*', 'title', 'st*',
           '1e999', 'inf', '99999999999999999999', '3é', 'é', '@5', '#5b', 'wl_a@5', '!', '',
           # strings as people paste them: paths, regex-looking text, escapes (complete and cut short), format directives
           '"dir\\"', '"C:\\Users\\me"', '"\\x"', '"\\x1b[0m"', '"\\u12"', '"\\u2026"', '"\\N{bogus}"', '"\\"', '"a\\nb"', '"\\d+\\.\\d+"', '"%s"', '"{0}"', '"{"', '"\\U0001"',
           '"\\777"', '"\\"x"',
           # wildcards over the labels of enum arguments
           't*', '*ouch', 'p*', '*o*', '*e*', '*_*', 'k*d']


def gen_structured_matcher(d):
    """grammar-shaped matcher text with adversarial atoms in every position: [conn:] [obj] [.name] [(items [! items])]"""
    def atom():
        a = d.choice(ATOMS18)
        if d.chance(0.2):
            a = '[' + a + d.choice([', ', ' ! ', ',', '!']) + d.choice(ATOMS18) + ']'
        return a

    def item():
        k = d.int(0, 3)
        if k == 0: return atom()
        if k == 1: return atom() + '='
        if k == 2: return atom() + '=' + atom()
        return '[' + atom() + ', ' + atom() + '=' + atom() + ']'
    pats = []
    for _ in range(d.int(1, 3)):
        p = ''
        if d.chance(0.3): p += atom() + ': '
        if d.chance(0.5): p += atom()
        if d.chance(0.5): p += '.' + atom()
        if d.chance(0.7) or not p:
            p += '(' + ', '.join(item() for _ in range(d.int(0, 3)))
            if d.chance(0.3): p += ' ! ' + ', '.join(item() for _ in range(d.int(1, 2)))
            p += ')'
        pats.append(p)
    t = ', '.join(pats)
    if d.chance(0.3):
        t += ' ! ' + atom()
    return t


def gen_deep_matcher(d):
    """bracket nesting far beyond what anybody types (a generated or pasted matcher): accepted ones must still print and evaluate"""
    n = d.choice([5, 20, 33, 60, 120, 200, 240, 260, 300, 400, 480, 520])
    a = d.choice(['a', 'wl_surface', '5', '*'])
    form = d.int(0, 5)
    if form == 0: t = '[' * n + a + ']' * n
    elif form == 1: t = ('[' + a + ',') * n + a + ']' * n
    elif form == 2: t = ('[' + a + ' ! ') * n + a + ']' * n
    elif form == 3: t = ('[' + a + ', x ! ') * n + a + ']' * n
    elif form == 4: t = ('[' + a + ',') * n + a + ']' * (n - d.int(0, 2))        # not closed properly
    else: t = ('[[' + a + '],') * n + a + ']' * n
    where = d.int(0, 4)
    if where == 0: return t
    if where == 1: return '.' + t
    if where == 2: return '(' + t + ')'
    if where == 3: return '(x=' + t + ')'
    return t + ': ' + a


def gen_matcher_text(d):
    k = d.int(0, 13)
    if k == 13:
        return gen_deep_matcher(d)
    if k >= 10:
        return gen_structured_matcher(d)
    if k <= 5:
        n = d.int(1, 12)
        return ''.join(d.choice(WORDS) if d.chance(0.5) else d.text(MATCHER_ALPHA, 1, 3) for _ in range(n))
    if k <= 7:
        from .. import refmatch as rm
        V = dict(conn=['A', 'B'], type=['wl_surface', 'wl_x'], id=[5, 7, 9], idgen=[[5, 1], [7, 0]], name=['commit', 'new'], argname=['title', 'states'],
                 int=[0, 3], float=[1.5], str=['x'], label=['pointer', 'keyboard'], label2=['keyboard'])
        t = rm.render(rm.Gen(d, V, 2).top(), rm.Plain())
        for _ in range(d.int(0, 3)):
            t = mutate_line(d, t)
        return t
    return d.text(UNI + MATCHER_ALPHA + string.ascii_letters + string.digits, 0, 30)


class Matchers(Stage):
    name = 'matchers'

    def examples(self, tier):
        return 4000 if tier == 'quick' else 14 * 40000

    def gen(self, d, tier):
        return gen_matcher_text(d)

    def execute(self, text):
        from core import matcher
        env.reset_globals(protocols=False)
        res = Result()
        try:
            m = matcher.parse(text)
        except RuntimeError:
            res.label('rejected-with-diagnostic')
            res.nontrivial = len(text.strip()) > 2
            res.sample = text
            return res
        # accepted: must print and evaluate on any message, before and after simplify()
        msgs = adversarial_messages()
        res.evals = 0
        for phase in ('parsed', 'simplified'):
            if phase == 'simplified':
                m = m.simplify()
            str(m)
            repr(m)
            for msg in msgs:
                m.matches(msg)
                res.evals += 1
        res.label('accepted')
        res.nontrivial = True
        res.sample = text
        return res


COMMAND_WORDS = ['help', 'list', 'filter', 'breakpoint', 'matcher', 'connection', 'resume', 'quit', 'h', 'l', 'f', 'b', 'm', 'c', 'r', 'q', 'w', 'wl', 'wlfilter', 'wllist',
                 'wl ', 'W', 'LIST', 'li', 'fi', 'co', 're', 'x', '~', '~ 5', '~ -1', '~ 0', '~ x', '~ 99999999999999999999', '~ 1.5', '~~', 'all', 'A', 'B', 'a', '*', '!']


class Commands(Stage):
    name = 'commands'
    long_session = False

    def examples(self, tier):
        return 1500 if tier == 'quick' else 14 * 15000

    def gen(self, d, tier):
        specs = histgen.history(d, nconn=d.int(1, 2), nmsg=d.int(0, 8), profile=PROFILE) if d.chance(0.7) else []
        if specs and d.chance(0.3):
            # a log cut at the front (the connection's side is unknown) in which the connection still gets a title
            specs = [m for m in specs if m['name'] != 'get_registry'] or specs
            tag = specs[0]['conn']
            specs.append(dict(conn=tag, t_us=specs[-1]['t_us'] + 1000, sent=True, iface='xdg_toplevel', id=900 + d.int(0, 3), name=d.choice(['set_title', 'set_app_id']),
                              args=[['str', d.choice(['editor', 'org.gnome.gedit', 'a b', 'x'])]]))
        cmds = []
        if d.chance(0.12):
            # a bitfield argument carrying named bits and bits the descriptions do not know, and wildcards over its labels
            t0 = specs[-1]['t_us'] if specs else 0
            tag = specs[-1]['conn'] if specs else None
            specs = list(specs) + [
                dict(conn=tag, t_us=t0 + 1000, sent=True, iface='wl_display', id=1, name='get_registry', args=[['new', 'wl_registry', 700]]),
                dict(conn=tag, t_us=t0 + 2000, sent=True, iface='wl_registry', id=700, name='bind', args=[['uint', 3], ['str', 'wl_seat'], ['uint', 7], ['new', None, 701]]),
                dict(conn=tag, t_us=t0 + 3000, sent=False, iface='wl_seat', id=701, name='capabilities', args=[['uint', d.choice([3, 11, 8, 15, 0x80000003, 0])]])]
            cmds.append(d.choice(['list ', 'filter ', 'breakpoint ', 'list * ! ']) + d.choice(['(t*)', '(*ouch)', '.capabilities(*o*)', '(capabilities=k*)', '(*8*)', '([p*, t*])']))
        for _ in range(d.int(1, 5)):
            k = d.int(0, 12)
            if k == 12:
                c = d.choice(['connection', 'connection', 'c', 'connection A', 'connection all', 'connection editor', 'connection x'])
            elif k >= 10 and d.chance(0.15):
                # the GDB-style prefix many times over (a macro or a stuck key), then a command
                c = d.choice(['wl ', 'w ', 'wl  ', 'w wl ']) * d.choice([3, 50, 400, 1000, 5000]) + d.choice(['help', 'list', 'connection', '', 'x', 'filter a'])
            elif k >= 10:
                # a command whose argument is itself a command word or just the GDB-style prefix
                c = d.choice(['help', 'h', 'wl help', 'wlhelp', 'w help', 'list', 'filter', 'breakpoint', 'connection', 'matcher', 'wl list', 'wlconnection', 'resume', 'quit']) + ' ' + d.choice(
                    ['wl', 'w', 'wl ', 'wl wl', 'wlhelp', 'wl help', 'help', 'list', 'wllist', 'wl list', ' ', '~', 'all', '', 'wl  ', 'wlwl', 'wl~', 'wl ~ 2'])
            elif k <= 4:
                c = ' '.join(d.choice(COMMAND_WORDS) for _ in range(d.int(0, 3)))
                if d.chance(0.6):
                    c += ' ' + gen_matcher_text(d)
            elif k <= 7:
                c = d.choice(['list ', 'filter ', 'breakpoint ', 'matcher ', 'connection ', 'help ']) + gen_matcher_text(d) + d.choice(['', ' ~ 2', ' ~', '~ ~'])
            else:
                c = d.text(string.printable.replace('\n', '').replace('\r', '') + 'éλ', 0, 40)
            cmds.append(c.replace('\n', ' ').replace('\r', ' '))
        template = None
        if self.long_session:
            # a long session behind the commands: an id through more than 702 incarnations (three letters), thousands of messages
            template = histgen.gen_long_template(d)
            template['cycles'] = d.int(703, 760)
            x = template['lanes'][0]['id']
            cmds = ['list * ~ 3', 'list %d%s' % (x, d.choice(['aaa', 'aab', 'zz', 'a'])), 'list ~ 5000', 'connection'] + cmds
        return dict(specs=specs, cmds=cmds, selected=d.choice([None, 'A']), color=d.chance(0.2), template=template)

    def execute(self, case):
        res = Result()
        # (a long session is loaded behind a filter that shows next to nothing, as one does with long logs)
        s = session.Session(color=case.get('color', False), filter_text='.get_registry' if case.get('template') else None)
        specs = histgen.expand_long(case['template']) if case.get('template') else case['specs']
        s.run([['line', wire.render(m, 'new')] for m in specs])
        if case.get('selected'):
            s.ctl.process_command('connection ' + case['selected'])
        state = []
        s.ctl.add_ui_state_listener(type('L', (), dict(pause_requested=lambda self: state.append('pause'), resume_requested=lambda self: state.append('resume'),
                                                        quit_requested=lambda self: state.append('quit')))()) if False else None
        from core import PersistentUIState
        st = PersistentUIState(s.ctl)
        res.evals = 0
        for c in case['cmds']:
            n0, n1 = len(s.out.buffer), len(s.err.buffer)
            st._paused = True
            st._should_quit = False
            s.ctl.process_command(c)        # escaping exceptions are bucketed by the runner
            res.evals += 1
            silent = len(s.out.buffer) == n0 and len(s.err.buffer) == n1
            if silent and st.paused() and not st.should_quit():
                res.bad('command-without-output-or-error', '%r produced neither output nor an error line' % c)
        res.nontrivial = any(len(c.strip()) > 3 for c in case['cmds'])
        res.label('with-history' if case['specs'] else 'empty-session')
        if case.get('template'): res.label('long-session-behind-the-commands')
        res.sample = case['cmds']
        return res


class LongSessionCommands(Commands):
    """the same commands after a session of thousands of messages (an id through more than 702 incarnations) was loaded behind a
    filter that shows next to nothing"""
    name = 'long-session-commands'
    long_session = True

    def examples(self, tier):
        return 6 if tier == 'quick' else 14 * 8


BYTE_TOKENS = [b'\xff', b'\xfe\xff', b'\x00', b'\r', b'\r\n', b'\xc3', b'\xe2\x82', b'\xf0\x9f\x98', b'\x80', b'\xed\xa0\x80', b'\x1b[31m', b'\n\n', b'\x7f', b'\xc0\xaf']


class Bytes(Stage):
    """byte strings to main.py -l / -p / -r (real subprocesses)"""
    name = 'bytes'
    wrong_file = False

    def examples(self, tier):
        return 36 if tier == 'quick' else 14 * 150

    def gen(self, d, tier):
        specs = histgen.history(d, nconn=d.int(1, 2), nmsg=d.int(1, 8), profile=PROFILE)
        data = ('\n'.join(wire.render(m, d.choice(['new', 'old'])) for m in specs) + '\n').encode()
        k = 6 if self.wrong_file else d.int(0, 6)
        b = bytearray(data)
        if k == 5:
            b = bytearray(d.draw(__import__('hypothesis').strategies.binary(min_size=0, max_size=200)))
        elif k == 6:
            # the wrong file: a compressed / re-encoded log (whole, cut short, or only the magic number followed by other bytes)
            import gzip, bz2, lzma, zlib
            enc = d.choice(['gzip', 'gzip', 'gzip', 'gzip', 'bz2', 'xz', 'zlib', 'utf-16', 'utf-16-be', 'utf-32', 'zip-magic', 'zstd-magic'])
            if enc == 'gzip': z = gzip.compress(data, mtime=0)
            elif enc == 'bz2': z = bz2.compress(data)
            elif enc == 'xz': z = lzma.compress(data)
            elif enc == 'zlib': z = zlib.compress(data)
            elif enc == 'zip-magic': z = b'PK\x03\x04' + data
            elif enc == 'zstd-magic': z = b'\x28\xb5\x2f\xfd' + data
            else: z = data.decode('utf-8', 'replace').encode(enc)
            how = d.int(0, 3)
            if how == 0: b = bytearray(z)
            elif how == 1: b = bytearray(z[:d.int(0, len(z))])
            elif how == 2: b = bytearray(z[:d.int(2, 12)] + data[:d.int(0, len(data))])
            else: b = bytearray(z[:d.int(2, 12)] + bytes(d.int(0, 255) for _ in range(d.int(0, 40))))
        else:
            for _ in range(d.int(1, 6)):
                i = d.int(0, len(b))
                kind = d.int(0, 3)
                if kind == 0: b[i:i] = d.choice(BYTE_TOKENS)
                elif kind == 1 and len(b): b[min(i, len(b) - 1)] = d.int(0, 255)
                elif kind == 2: del b[i:i + d.int(1, 5)]
                else: b[i:i] = bytes([d.int(128, 255)])
        # the sandbox only has C locales, where Python decodes standard input with surrogateescape; under an ordinary UTF-8 locale
        # (en_US.UTF-8 ...) standard streams decode strictly - PYTHONIOENCODING reproduces exactly that
        return dict(data=list(bytes(b)), exit=d.choice([0, 3]), mode=d.choice(['file', 'file', 'file', 'pipe', 'run'] if self.wrong_file else ['file', 'pipe', 'pipe', 'run']), stdio=d.choice([None, 'utf-8:strict', 'utf-8:strict']),
                    no_stdin=d.chance(0.35),      # nobody at the prompt: standard input at end of file
                    linger=d.choice([0, 0, 0, 0, 1.3]))      # (run mode) the program closes its stderr and only exits later

    def execute(self, case):
        res = Result()
        data = bytes(case['data'])
        xenv = dict(PYTHONIOENCODING=case['stdio']) if case.get('stdio') else {}
        with cli.Scratch() as sc:
            if case['mode'] == 'file':
                log = sc.write('in.log', data, 'wb')
                rc, out, err = cli.run_main(['-C', '-l', log], stdin=b'' if case.get('no_stdin') else b'q\n', extra_env=xenv)
                want = 0
            elif case['mode'] == 'pipe':
                rc, out, err = cli.run_main(['-C', '-p'], stdin=data, extra_env=xenv)
                want = 0
            else:
                child = sc.write('child.py', cli.CHILD)
                spec = sc.write('spec.json', json.dumps(dict(report=sc.path('report.json'), chunks=[[list(data), 0]], exit=case['exit'], linger=case.get('linger', 0))))
                rc, out, err = cli.run_main(['-C', '-r', cli.PY, child], stdin=b'' if case.get('no_stdin') else b'q\n', extra_env=dict(xenv, WDV_CHILD_SPEC=spec))
                want = case['exit']
        mode = case['mode']
        if mode == 'run' and case.get('linger') and rc is not None and b'Failed to join subprocess thread' in err:
            # the program closed its stderr and exited 1.3 s later: the tool has to wait for it. Once more before it counts
            # (wall-clock effects must not raise an alarm)
            with cli.Scratch() as sc:
                child = sc.write('child.py', cli.CHILD)
                spec = sc.write('spec.json', json.dumps(dict(report=sc.path('report.json'), chunks=[[list(data), 0]], exit=case['exit'], linger=case['linger'])))
                rc2, out2, err2 = cli.run_main(['-C', '-r', cli.PY, child], stdin=b'' if case.get('no_stdin') else b'q\n', extra_env=dict(xenv, WDV_CHILD_SPEC=spec))
            if rc2 is not None and b'Failed to join subprocess thread' in err2:
                res.bad('traceback:run:lingering-program', 'program closed stderr and exited %d after 1.3 s: wayland-debug gave up waiting for it twice (exit %r): %r' % (case['exit'], rc2, err2[-200:]))
            return res
        if rc is None or b'Failed to join subprocess thread' in err:
            res.label('timeout(inconclusive)')
            return res
        if b'Traceback' in err:
            tb = err.decode('utf-8', 'replace')
            last = [l for l in tb.strip().split('\n') if l.strip()][-1][:120]
            etype = last.split(':')[0].strip()
            res.bad('traceback:%s:%s' % (mode, etype), '%s mode: %s' % (mode, last))
        elif rc != want:
            res.bad('exit-status:' + mode, '%s mode exited with %r, expected %r; stderr %r' % (mode, rc, want, err[-200:]))
        o = out.decode('utf-8', 'replace')
        opened = len(re.findall(r'^New (?:client|server|unknown type) connection ', o, re.M))
        closed = len(re.findall(r'^Closed (?:client|server|unknown type) connection ', o, re.M))
        if opened != closed and not res.discs:
            res.bad('connections-not-all-closed:' + mode, '%d opened, %d closed' % (opened, closed))
        try:
            data.decode('utf-8')
            res.label('valid-utf8')
        except UnicodeDecodeError:
            res.label('undecodable-bytes')
            res.nontrivial = True
        res.label('mode:' + mode)
        if case.get('stdio'): res.label('strict-stdio')
        res.sample = dict(mode=mode, data=repr(data[:120]))
        return res


# ------------------------------------------------------------------------------------------------
# coverage-guided stage (atheris, thorough tier): byte strings -> the same oracles


class WrongFile(Bytes):
    """the wrong kind of file: compressed / UTF-16 / archive bytes (whole, cut short, magic number + anything) to -l, -p and -r"""
    name = 'wrong-file'
    wrong_file = True

    def examples(self, tier):
        return 40 if tier == 'quick' else 14 * 100


class WildcardCost(Stage):
    """an accepted matcher can be evaluated on any message: wildcard patterns with many `*` against long names and strings made of
    the same few letters (`*a*a*a*...*b` against `aaaa...a`).  A fresh process evaluates the matcher on one message under a limit
    of 20 s - five orders of magnitude above what the star-free control needs in the same process; only a run whose control
    finished and whose subject did not is a violation (a process that cannot even do the control is inconclusive)."""
    name = 'wildcard-cost'

    def examples(self, tier):
        return 14 if tier == 'quick' else 14 * 30

    def gen(self, d, tier):
        letters = d.choice(['a', 'ab', 'a_'])
        k = d.choice([3, 8, 12, 16, 20, 24])
        pieces = [d.text(letters, 1, 2) for _ in range(k)]
        pat = '*' + '*'.join(pieces) + '*' + d.choice(['b', 'z', 'x_', ''])
        text = d.text(letters, 30, 70)
        where = d.choice(['type', 'name', 'string', 'label-list'])
        return dict(pattern=pat, text=text, where=where)

    def execute(self, case):
        import subprocess, json as _json
        from .. import cli
        res = Result()
        res.evals = 1
        pat, text, where = case['pattern'], case['text'], case['where']
        mt = {'type': pat, 'name': '.' + pat, 'string': '(' + pat + ')', 'label-list': '[' + pat + ', wl_zzz].[' + pat + ']'}[where]
        prog = (
            'import sys, json, time\n'
            'sys.path.insert(0, %r)\n'
            'from core import matcher, wl\n'
            'from core.wl.message import MockMessage\n'
            'from core.wl.object import MockObject\n'
            'mt, text, where = json.loads(sys.argv[1])\n'
            'm = MockMessage(obj=MockObject(type=text if where in ("type", "label-list") else "wl_x", id=3), name=text if where in ("name", "label-list") else "frob",\n'
            '                args=(wl.Arg.String(text),) if where == "string" else ())\n'
            'ctl = matcher.parse(text if where != "string" else "(" + text + ")").simplify()\n'
            't0 = time.time(); ctl.matches(m); print("control", time.time() - t0, flush=True)\n'
            'p = matcher.parse(mt).simplify()\n'
            't0 = time.time(); r = p.matches(m); print("subject", r, time.time() - t0, flush=True)\n' % env.REPO)
        try:
            r = subprocess.run([cli.PY, '-c', prog, _json.dumps([mt, text, where])], capture_output=True, text=True, timeout=20, env=cli.base_env(None))
            out, timed_out = r.stdout, False
        except subprocess.TimeoutExpired as e:
            out = (e.stdout or b'').decode() if isinstance(e.stdout, bytes) else (e.stdout or '')
            timed_out = True
        if 'control' not in out:
            res.label('control-did-not-run(inconclusive)')
            return res
        if timed_out:
            res.bad('matcher-evaluation-does-not-finish', 'matcher %r (accepted) evaluated on a message whose %s is %r: not finished after 20 s; the star-free control took %s s' % (
                mt, where, text, out.split()[1]))
        elif 'subject' not in out:
            res.bad('matcher-evaluation-fails', 'matcher %r on %r: %r %r' % (mt, text, out[-200:], r.stderr[-300:]))
        stars = pat.count('*')
        res.nontrivial = stars >= 12
        res.label('stars>=12' if stars >= 12 else 'stars<12')
        res.label('in-' + where)
        res.sample = dict(matcher=mt, text=text)
        return res


def fuzz_target(target, data):
    """one execution of a fuzz target; never raises for findings (returns them)"""
    from ..runner import safe_execute
    text = data.decode('utf-8', 'replace')
    if target == 'line':
        st, case = Lines(), dict(lines=[text.replace('\n', ' ').replace('\r', ' ')], final_newline=True)
    elif target == 'log':
        lines = [l.replace('\r', ' ') for l in text.split('\n')] or ['']
        st, case = Lines(), dict(lines=lines[:40], final_newline=text.endswith('\n'))
    elif target == 'matcher':
        st, case = Matchers(), text
    elif target == 'command':
        cmds = [c.replace('\r', ' ') for c in text.split('\n')][:6]
        st, case = Commands(), dict(specs=FUZZ_HISTORY, cmds=cmds, selected=None, color=False)
    else:
        raise ValueError(target)
    return safe_execute(st, case)


FUZZ_HISTORY = [
    dict(conn=None, t_us=1000, sent=True, iface='wl_display', id=1, name='get_registry', args=[['new', 'wl_registry', 2]]),
    dict(conn=None, t_us=2000, sent=False, iface='wl_registry', id=2, name='global', args=[['uint', 1], ['str', 'wl_seat'], ['uint', 7]]),
    dict(conn=None, t_us=3000, sent=True, iface='wl_registry', id=2, name='bind', args=[['uint', 1], ['str', 'wl_seat'], ['uint', 7], ['new', None, 3]]),
    dict(conn=None, t_us=4000, sent=False, iface='wl_seat', id=3, name='capabilities', args=[['uint', 3]]),
    dict(conn=None, t_us=2004000, sent=True, iface='wl_display', id=1, name='sync', args=[['new', 'wl_callback', 4]]),
    dict(conn=None, t_us=2005000, sent=False, iface='wl_display', id=1, name='delete_id', args=[['uint', 4]]),
]


def fuzz_seeds(target):
    lines = [wire.render(m, 'new') for m in FUZZ_HISTORY] + [wire.render(m, 'old') for m in FUZZ_HISTORY[:3]]
    if target == 'line':
        return [l.encode() for l in lines]
    if target == 'log':
        return [('\n'.join(lines) + '\n').encode(), b'chatter\n' + lines[0].encode()]
    if target == 'matcher':
        return [b'wl_surface', b'xdg_* ! xdg_popup, .get_popup', b'55a.[motion, axis]', b'([x=0, y=0])', b'B: 7c', b'wl_pointer(buffer=)', b'.(nil)', b'(1.5, "s")']
    return [b'list wl_seat ~ 2', b'filter ! .sync\nbreakpoint .bind', b'connection A\nhelp matcher', b'matcher [a ! b].c(d=1)']


def fuzz_dictionary(target):
    if target in ('line', 'log'):
        return [t for t in LINE_TOKENS if t and '\x00' not in t]
    return WORDS + list(MATCHER_ALPHA.strip()) + COMMAND_WORDS


class Fuzz(Stage):
    """atheris (libFuzzer) campaigns, python3-vt; thorough tier only. Pinned only approximately by -seed: any finding is
    kept as an input file, which is the reproducible unit (replayed in-process through the same oracle)."""
    name = 'atheris'
    kind = 'custom'
    tiers = ('thorough',)
    TARGETS = ['line', 'log', 'matcher', 'command']
    PY = '/opt/veriftools/pyvenv/bin/python'

    def examples(self, tier):
        return 8       # campaigns: 4 targets x {empty corpus, sample corpus}

    def run(self, col, tier, seed, nshards, shard):
        import subprocess, tempfile, shutil, glob, sys
        if not os.path.exists(self.PY):
            res = Result()
            res.label('atheris-unavailable')
            col.add(self, dict(target='none', data=[]), res)
            return
        budget = int(os.environ.get('WDV_FUZZ_SECONDS', '120'))
        campaigns = [(t, c) for t in self.TARGETS for c in ('empty', 'sample')]
        for k, (target, corpus) in enumerate(campaigns):
            if k % nshards != shard:
                continue
            out = tempfile.mkdtemp(prefix='wdv-fuzz-')
            try:
                e = dict(os.environ, PYTHONPATH=env.VERIF, WDV_REPO=env.REPO, PYTHONDONTWRITEBYTECODE='1')
                try:
                    subprocess.run([self.PY, '-m', 'wdverif.fuzz_c18', '--target', target, '--time', str(budget), '--seed', str(seed % 2**31 or 1),
                                    '--out', out, '--corpus', corpus], cwd=env.VERIF, env=e, stdout=subprocess.DEVNULL, stderr=subprocess.DEVNULL,
                                   timeout=budget + 300)
                except subprocess.TimeoutExpired:
                    pass        # whatever the campaign flushed so far is read below; a slow campaign is never a violation
                st = json.load(open(os.path.join(out, 'stats.json'))) if os.path.exists(os.path.join(out, 'stats.json')) else dict(executions=0)
                res = Result()
                res.evals = st.get('executions', 0)
                res.nontrivial = st.get('executions', 0) > 0
                res.label('atheris:%s:%s-corpus' % (target, corpus))
                res.count('atheris-executions', st.get('executions', 0))
                res.count('atheris-distinct-nontrivial-inputs', st.get('distinct_nontrivial', 0))
                res.sample = dict(target=target, corpus=corpus, executions=st.get('executions', 0), seconds=round(st.get('wall', 0), 1))
                col.add(self, dict(target=target, corpus=corpus, campaign=k, seed=seed), res)
                for f in sorted(glob.glob(os.path.join(out, 'bucket-*.json'))):
                    b = json.load(open(f))
                    case = dict(target=target, data=b['data'])
                    r = self.execute(case)          # confirm in-process, outside the fuzzer
                    col.add(self, case, r)
            finally:
                shutil.rmtree(out, ignore_errors=True)

    def execute(self, case):
        if case.get('target') in (None, 'none') or 'data' not in case:
            return Result()
        res = fuzz_target(case['target'], bytes(case['data']))
        res.label('atheris-finding-replayed')
        return res


class C18(Prop):
    id = 'C18'
    rule = ('lines: valid lines mutated (delete/duplicate/splice tokens, huge numbers, id 0, quotes, escapes, spliced lines) and arbitrary Unicode '
            'through parse.into_sink - nothing may escape, every opened connection must be closed; matchers: strings over the matcher alphabet, '
            'words, mutated valid matchers and arbitrary Unicode - only RuntimeError may leave matcher.parse, an accepted matcher must print and '
            'evaluate on a fixed set of adversarial messages before and after simplify(); commands: printable command lines against sessions in '
            'varied states - nothing escapes, every command writes to out or err (resume/quit excepted); bytes: mutated/undecodable byte strings '
            'to real main.py -l/-p/-r - expected exit status, no traceback, as many Closed as New notices. non-trivial = input that is neither '
            'empty nor fully valid (a line set that is partly decoded and partly passed through, a matcher/command longer than 2-3 characters, a '
            'byte string that is not valid UTF-8); distinct by SHA-1 of the case. thorough tier: 8 atheris (libFuzzer) campaigns (4 targets x empty/sample corpus) '
            'with the same oracles inside the target and a token dictionary. long-session-commands: commands after a session of thousands of messages (an id through > 702 incarnations) loaded behind a filter. Matchers with brackets nested up to 520 deep, command lines with the GDB prefix repeated up to 5000 times.')
    assumptions = ['a slow input is inconclusive, never a violation', 'LC_ALL=C.UTF-8',
                   'internal errors that the line loop catches, prints and survives are counted (counters internal-error-printed-and-survived:*) but are '
                   'not violations of the statement (the input is consumed to the end and every connection is closed)']
    stages = [Lines(), Matchers(), Commands(), LongSessionCommands(), Bytes(), WrongFile(), WildcardCost(), Fuzz()]


PROP = C18()
