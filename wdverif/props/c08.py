"""C08 - no input line is lost, reordered or altered; output keeps pace with input."""
import re, string
from .. import env, histgen, session, wire
from ..runner import Prop, Stage, Result
from .c01 import CHATTER, CHATTER_TOKENS, TS_SHAPED

PROFILE = dict(reuse=0.6, long_strings=True, weights=dict(repeat=4, newer=4, delete=14, bind=12, message=50, server_event=8, sync=6, enum=10, title=16, kinds=8, nulls=6, retype=3, midsession=6))


def gen_chatter(d):
    k = d.int(0, 9)
    if k == 0: return ''
    if k == 1: return d.choice([' ', '\t', '   ', ' \t '])
    if k == 2: return 'x' * d.choice([600, 3000, 4095, 4096, 4097, 9000]) + ' end'
    toks = []
    for _ in range(d.int(1, 7)):
        toks.append(d.choice(CHATTER_TOKENS) if d.chance(0.5) else d.text(CHATTER, 0, 12))
    t = ' '.join(toks)
    t = TS_SHAPED.sub('[]', t)
    if d.chance(0.12):
        # characters str.splitlines() takes for line ends although a text stream does not: the line stays one line
        t = 'pre' + d.choice(['\x0b', '\x0c', '\x1c', '\x1d', '\x1e', '\x85', '\u2028', '\u2029']) + 'post ' + t
    if d.chance(0.3):
        t = d.choice([' ', '  ', '\t']) + t
    if d.chance(0.3):
        t = t + d.choice([' ', '  ', '\t'])
    return t


def notices_stripped(lines):
    return [l for l in lines if not session.NEW_LINE.match(l) and not session.CLOSED_LINE.match(l) and not session.SEP_LINE.match(l)]


def run_stream(text, supress):
    """feed `text` (a str, possibly without final newline) line by line through the scripted reader"""
    parts = text.split('\n')
    items = [['line', p] for p in parts[:-1]]
    if parts[-1] != '':
        items.append(['raw', parts[-1]])
    s = session.Session(show_unprocessed=not supress)
    segs = s.run(items)
    return s, segs


def check_full(case, res, supress):
    lines = case['lines']
    text = '\n'.join(l[1] for l in lines) + ('\n' if case['final_newline'] else '')
    s, segs = run_stream(text, supress)
    inp = [seg for seg in segs if seg.kind in ('line', 'raw')]
    tag = ':supress' if supress else ''
    if len(inp) != len(lines):
        res.bad('harness:segments', '%d segments for %d lines' % (len(inp), len(lines)))
        return None
    prefixes = set()
    from .. import model
    W = model.MWorld()
    unseen = {}          # index of a message spec -> its target was never seen created (by the reference model)
    for k, sp in enumerate(case['specs']):
        unseen[k] = bool(getattr(W.step(sp)['target'], 'ghost', False))
    for seg, (kind, ltext) in zip(inp, lines):
        items = notices_stripped(seg.out_lines())
        res.evals += 1
        if kind == 'msg':
            if len(items) != 1:
                later = any(ltext.strip() in l for s2 in segs[segs.index(seg) + 1:] for l in s2.out_lines())
                res.bad(('message-line-output-late' if not items and later else 'message-line-items!=1') + tag,
                        '%r produced %d items before the next read: %r' % (ltext, len(items), items[:3]))
                continue
            mm = session.MSG_LINE.match(items[0])
            k = seg_index(lines, seg, inp)
            spec = case['specs'][k]
            # (an object the stream never showed being created - and only such an object - reads `unresolved type@id?`)
            if not mm or not re.search(r'%s@%d%s\.%s\(' % (re.escape(spec['iface']), spec['id'], r'\?' if unseen[k] else '[a-z]+', re.escape(spec['name'])), mm.group(3)):
                res.bad('message-line-not-decoded' + tag, '%r shown as %r' % (ltext, items[0]))
        else:
            if supress:
                if items:
                    res.bad('supress-shows-passthrough', '%r produced %r' % (ltext, items))
                continue
            if len(items) != 1:
                res.bad('passthrough-items!=1', '%r produced %d items before the next read: %r' % (ltext, len(items), items[:3]))
                continue
            body = ltext.strip()
            if not items[0].endswith(body):
                res.bad('passthrough-text-altered', '%r passed through as %r' % (ltext, items[0]))
                continue
            prefixes.add(items[0][:len(items[0]) - len(body)])
    if len(prefixes) > 1:
        res.bad('passthrough-decoration-varies', repr(sorted(prefixes)))
    for p in prefixes:
        if re.search(r'[A-Za-z0-9]', p):
            res.bad('passthrough-decoration-has-text', repr(p))
    # after the last line: only Closed notices, one per opened connection
    eof = [seg for seg in segs if seg.kind == 'eof']
    tail = [l for seg in eof for l in seg.out_lines()]
    opened = [l for seg in segs for l in seg.out_lines() if session.NEW_LINE.match(l)]
    if any(not session.CLOSED_LINE.match(l) for l in tail) or len(tail) != len(opened):
        res.bad('tail-not-only-closed-notices' + tag, 'after the last line: %r (%d connections opened)' % (tail[:4], len(opened)))
    return s, segs, text


def seg_index(lines, seg, inp):
    """index among message lines"""
    k = inp.index(seg)
    return sum(1 for kind, _ in lines[:k] if kind == 'msg')


def check_truncations(case, res, supress, full):
    s_full, segs_full, text = full
    fin = [seg for seg in segs_full if seg.kind in ('line', 'raw')]
    offsets = case.get('offsets')
    if offsets is None:
        offsets = range(0, len(text))
    # line start offsets
    starts = [0]
    for l in case['lines']:
        starts.append(starts[-1] + len(l[1]) + 1)
    tag = ':supress' if supress else ''
    for off in offsets:
        if off >= len(text):
            continue
        s, segs = run_stream(text[:off], supress)
        res.count('truncated-runs')
        tin = [seg for seg in segs if seg.kind in ('line', 'raw')]
        # number of complete lines in the prefix
        j = max(i for i, st in enumerate(starts) if st <= off)
        partial = text[starts[j]:off] if j < len(case['lines']) else ''
        ncomplete = j
        exp_n = ncomplete + (1 if partial != '' else 0)
        if len(tin) != exp_n:
            res.bad('harness:truncation-segments', 'offset %d: %d segments, expected %d' % (off, len(tin), exp_n))
            continue
        bad = False
        for i in range(ncomplete):
            if tin[i].out != fin[i].out:
                res.bad('truncated-output-not-a-prefix' + tag, 'cut at %d: line %d %r gave %r, full run gave %r' % (off, i, tin[i].text, tin[i].out, fin[i].out))
                bad = True
                break
        if bad:
            continue
        if partial != '':
            items = notices_stripped(tin[-1].out_lines())
            ok = (len(items) == 1) or (supress and len(items) == 0)
            if not ok:
                res.bad('partial-line-items!=1' + tag, 'cut at %d: partial line %r produced %d items: %r' % (off, partial, len(items), items[:3]))
            elif items and not supress and not session.MSG_LINE.match(items[0]) and not items[0].endswith(partial.strip()):
                res.bad('partial-line-text-altered' + tag, 'cut at %d: partial line %r passed through as %r' % (off, partial, items[0]))
        tail = [l for seg in segs if seg.kind == 'eof' for l in seg.out_lines()]
        opened = [l for seg in segs for l in seg.out_lines() if session.NEW_LINE.match(l)]
        if any(not session.CLOSED_LINE.match(l) for l in tail) or len(tail) != len(opened):
            res.bad('tail-not-only-closed-notices' + tag, 'cut at %d: after the input: %r (%d connections opened)' % (off, tail[:4], len(opened)))


class Streams(Stage):
    name = 'streams'

    def examples(self, tier):
        return 400 if tier == "quick" else 14 * 1500

    def gen(self, d, tier):
        dialect = d.choice(['new', 'old'])
        specs = histgen.history(d, nconn=d.int(1, 2), nmsg=d.int(1, 12), profile=PROFILE)
        if d.chance(0.3):
            # a request with a new id the protocol gives no interface for, other than wl_registry.bind: libwayland prints interface
            # name, version and `new id [unknown]#N`; nothing can be created from it, the line is still a message
            k = d.int(1, len(specs))
            at = specs[k - 1]
            specs.insert(k, dict(conn=at['conn'], t_us=at['t_us'], sent=True, iface='wl_display', id=1, name=d.choice(['make_any', 'create_any']),
                                 args=[['str', 'zfoo_thing_v1'], ['uint', 1], ['new', None, 700 + d.int(0, 9)]]))
        # current libwayland prints the event queue's name; with the project's conn_id patches both tags appear
        queue = d.choice([None, None, 'Default Queue', 'Display Queue', 'q']) if dialect == 'new' else None
        lines = []
        for m in specs:
            while d.chance(0.4):
                lines.append(['chat', gen_chatter(d)])
                if d.chance(0.2):
                    lines.append(['chat', lines[-1][1]])      # the very same line again (a warning printed twice): two lines, two items
            t = wire.render(m, dialect, queue=queue)
            if d.chance(0.1):
                t = t + d.choice([' ', '\t', '  '])      # trailing blanks (surrounding whitespace aside)
            lines.append(['msg', t])
        while d.chance(0.3):
            lines.append(['chat', gen_chatter(d)])
        final_newline = d.chance(0.7)
        if not final_newline and lines[-1][1].strip() == '':
            final_newline = True
        text_len = sum(len(l[1]) + 1 for l in lines)
        offsets = None
        if text_len > (400 if tier == 'quick' else 700):        # long streams: 40 drawn offsets
            offsets = sorted({d.int(0, text_len - 1) for _ in range(40)})
        return dict(dialect=dialect, specs=specs, lines=lines, final_newline=final_newline, offsets=offsets)

    def execute(self, case):
        res = Result()
        res.evals = 0
        for supress in (False, True):
            full = check_full(case, res, supress)
            if full is None or res.discs:
                continue
            check_truncations(case, res, supress, full)
        kinds = [k for k, _ in case['lines']]
        nmsg = kinds.count('msg')
        nchat = kinds.count('chat')
        chat_pos = [i for i, k in enumerate(kinds) if k == 'chat']
        adjacent_all = len(chat_pos) >= 2 and chat_pos[-1] - chat_pos[0] == len(chat_pos) - 1
        res.nontrivial = nmsg >= 3 and nchat >= 2 and not adjacent_all
        res.label('msgs>=3' if nmsg >= 3 else 'msgs<3')
        if nchat >= 2: res.label('chatter>=2')
        if not case['final_newline']: res.label('no-final-newline')
        if any(l[1].strip() == '' for l in case['lines']): res.label('blank-line')
        if any(len(l[1]) > 500 for l in case['lines']): res.label('very-long-line')
        if any(len(l[1]) > 4096 for l in case['lines']): res.label('line>4096')
        if any(l[0] == 'msg' and '{' in l[1][:30] for l in case['lines']): res.label('queue-tag')
        res.label('dialect:' + case['dialect'])
        res.sample = dict(lines=[l[1][:100] for l in case['lines'][:10]], final_newline=case['final_newline'])
        return res


class CliOptions(Stage):
    """the same accounting on the command line: main.py in pipe and file mode with combinations of its own options (-b, -f *,
    --supress, colour); whatever the combination, every message line yields one message line and every other line one
    passed-through line (none with --supress)"""
    name = 'cli-options'

    def examples(self, tier):
        return 24 if tier == 'quick' else 14 * 60

    def gen(self, d, tier):
        specs = histgen.history(d, nconn=d.int(1, 2), nmsg=d.int(2, 10), profile=PROFILE)
        lines = []
        for m in specs:
            while d.chance(0.3):
                c = gen_chatter(d)[:200]
                lines.append(['chat', c])
            lines.append(['msg', wire.render(m, 'new')])
            if d.chance(0.12):
                # progress text redrawn with bare carriage returns: each piece is a line of its own, in file mode as in pipe mode
                lines.append(['chat', d.choice(['fetching 10%\rfetching 80%\rdone', 'a\rb', 'loading cache...\rloading cache... ok', 'x\ry\rz w'])])
        opts = []
        if d.chance(0.5): opts += ['-b', d.choice(['.sync', '*', 'wl_display', '!', '.nothing_has_this_name', 'wl_registry, .delete_id'])]
        if d.chance(0.4): opts += ['--supress']
        if d.chance(0.3): opts += ['-f', d.choice(['*', '*.*', '* . *'])]
        opts = d.perm(['X'] + [tuple(opts[i:i + 2]) if opts[i] in ('-b', '-f') else (opts[i],) for i in [k for k in range(len(opts)) if opts[k].startswith('-')]])
        return dict(specs=specs, lines=lines, opts=[w for o in opts if o != 'X' for w in o], mode_first='X' in opts[:1], final_newline=d.chance(0.7))

    def execute(self, case):
        from .. import cli
        res = Result()
        res.evals = 0
        text = '\n'.join(l[1] for l in case['lines']) + ('\n' if case['final_newline'] or case['lines'][-1][1].strip() == '' else '')
        data = text.encode('utf-8')
        nmsg = sum(1 for k, _ in case['lines'] if k == 'msg')
        nchat = len(re.split(r'\r\n|\r|\n', text)) - (1 if text.endswith('\n') else 0) - nmsg
        supress = '--supress' in case['opts']
        with cli.Scratch() as sc:
            log = sc.write('s.log', data, 'wb')
            runs = []
            for mode in ('pipe', 'file'):
                mo = ['-p'] if mode == 'pipe' else ['-l', log]
                argv = ['-C'] + (mo + case['opts'] if case.get('mode_first') else case['opts'] + mo)
                rc, out, err = cli.run_main(argv, stdin=data if mode == 'pipe' else b'q\n')
                runs.append((mode, argv, rc, out, err))
        for mode, argv, rc, out, err in runs:
            if rc is None:
                res.label('timeout(inconclusive)')
                continue
            res.evals += 1
            o = out.decode('utf-8', 'replace')
            shown = len(re.findall(r'^\s*-?\d+\.\d{4} \w*: ', o, re.M))
            passed = len(re.findall(r'^       \|  ', o, re.M))
            if rc != 0:
                res.bad('cli:exit-status:' + mode, '%r exited %r: %r' % (argv, rc, err[-200:]))
            if shown != nmsg:
                res.bad('cli:message-lines:' + mode, '%r: %d message lines shown for %d in the stream' % (argv, shown, nmsg))
            if passed != (0 if supress else nchat):
                res.bad('cli:passthrough-lines:' + mode, '%r: %d lines passed through, %d non-message lines in the stream' % (argv, passed, nchat))
        res.nontrivial = len(case['opts']) >= 2 and nmsg >= 2
        for o in case['opts']:
            if o.startswith('-'): res.label('option:' + o)
        res.sample = dict(opts=case['opts'], lines=[l[1][:80] for l in case['lines'][:6]])
        return res


class CliPacing(Stage):
    """keeping pace on the command line: main.py -p with its standard output on a pipe (as under `| tee`, `| grep`), fed one line
    at a time by a producer that waits for the output of each line before it writes the next one. Output that only appears
    once more input (or the end of input) has arrived was not "produced before the next line is read"."""
    name = 'cli-pacing'

    def examples(self, tier):
        return 6 if tier == 'quick' else 14 * 12

    def gen(self, d, tier):
        specs = histgen.history(d, nconn=1, nmsg=d.int(2, 5), profile=PROFILE, tagged=False)
        lines = []
        for m in specs:
            if d.chance(0.3):
                lines.append(['chat', 'chatter %d' % d.int(0, 99)])
            lines.append(['msg', wire.render(m, 'new')])
        return dict(lines=lines, supress=d.chance(0.3), unbuffered_env=d.chance(0.3))

    def execute(self, case):
        import os, select, subprocess, time
        from .. import cli
        res = Result()
        res.evals = 0
        extra = {}
        env = cli.base_env()
        if not case.get('unbuffered_env'):
            env.pop('PYTHONUNBUFFERED', None)      # the ordinary environment: Python block-buffers a standard output that is not a terminal
        else:
            env['PYTHONUNBUFFERED'] = '1'
        argv = ['-C', '-p'] + (['--supress'] if case.get('supress') else [])
        p = subprocess.Popen([cli.PY, cli.MAIN] + argv, stdin=subprocess.PIPE, stdout=subprocess.PIPE, stderr=subprocess.DEVNULL, env=env)
        got = b''

        def wait_for(pred, limit):
            nonlocal got
            t0 = time.time()
            while not pred(got) and time.time() - t0 < limit:
                r, _, _ = select.select([p.stdout], [], [], 0.05)
                if r:
                    chunk = os.read(p.stdout.fileno(), 65536)
                    if not chunk:
                        break
                    got += chunk
            return pred(got)
        try:
            expected_items = 0
            late = None
            for k, (kind, text) in enumerate(case['lines']):
                p.stdin.write(text.encode() + b'\n')
                p.stdin.flush()
                if kind == 'msg' or not case.get('supress'):
                    expected_items += 1
                n = expected_items

                def enough(buf, n=n):
                    items = [l for l in buf.decode('utf-8', 'replace').split('\n')[:-1] if not session.NEW_LINE.match(l) and not session.SEP_LINE.match(l)]
                    return len(items) >= n
                res.evals += 1
                if not wait_for(enough, 12.0):
                    late = (k, text)
                    break
            p.stdin.close()
            if late is not None:
                # did it exist all along? With the input ended everything must come out at once
                n = expected_items
                wait_for(lambda buf: b'Closed ' in buf, 20.0)
                items = [l for l in got.decode('utf-8', 'replace').split('\n')[:-1] if not session.NEW_LINE.match(l) and not session.SEP_LINE.match(l) and not session.CLOSED_LINE.match(l)]
                if len(items) >= n:
                    res.bad('cli:output-only-after-more-input', 'line %d %r: no output within 12 s while the producer waited; it appeared once the input ended (standard output %s)' % (
                        late[0], late[1][:80], 'unbuffered by the environment' if case.get('unbuffered_env') else 'on a pipe, ordinary environment'))
                else:
                    res.label('timeout(inconclusive)')
        finally:
            try:
                p.kill()
            except Exception:
                pass
            p.wait()
        res.nontrivial = len(case['lines']) >= 3
        res.label('stdout-on-a-pipe')
        res.sample = dict(lines=[t[:80] for _, t in case['lines'][:4]], supress=case.get('supress'))
        return res


class ManyConnections(Stage):
    """streams in which a great many connections show up (up to 18 300: connection names of four letters) with chatter in between: still
    one item per line, in order, before the next line is read"""
    name = 'many-connections'

    def examples(self, tier):
        return 5 if tier == 'quick' else 14 * 2

    def gen(self, d, tier):
        return dict(n=d.choice([18300, 18290 + d.int(0, 30), d.int(1001, 1040), d.int(703, 760)]), extra_every=d.choice([7, 97]), chatter_every=d.choice([50, 333]), supress=d.chance(0.3))

    def execute(self, case):
        from .c04 import many_tags_specs
        res = Result()
        res.evals = 0
        specs = many_tags_specs(case['n'], case['extra_every'])
        items = []
        for k, m in enumerate(specs):
            if k % case['chatter_every'] == 0:
                items.append(['line', 'progress %d' % k, 'chatter'])
            items.append(['line', wire.render(m, 'new'), 'msg'])
        s = session.Session(show_unprocessed=not case['supress'])
        segs = s.run([it[:2] for it in items])
        inp = [g for g in segs if g.kind == 'line']
        if len(inp) != len(items):
            res.bad('harness:segments', '%d segments for %d lines' % (len(inp), len(items)))
            return res
        for seg, it in zip(inp, items):
            got = notices_stripped(seg.out_lines())
            res.evals += 1
            if it[2] == 'msg':
                if len(got) != 1 or not session.MSG_LINE.match(got[0]):
                    res.bad('message-line-items!=1:many-connections', 'line %d of %d (%r) produced %r before the next read' % (seg.index, len(items), it[1][:80], got[:2]))
                    break
            else:
                want = [] if case['supress'] else ['       |  ' + it[1]]
                if got != want:
                    res.bad('non-message-line-items:many-connections', 'line %d (%r) produced %r' % (seg.index, it[1], got[:2]))
                    break
        res.nontrivial = True
        res.label('connections>=18279' if case['n'] >= 18279 else 'connections>=1001' if case['n'] >= 1001 else 'connections>=703')
        res.sample = dict(case)
        return res


class C08(Prop):
    id = 'C08'
    rule = ('generated well-formed message streams (both dialects) with non-message lines (chatter without timestamp-shaped token, blank and '
            'whitespace-only lines, leading/trailing blanks, very long lines) at drawn positions, final newline present or not; both --supress '
            'settings; via the scripted reader each input line must have produced exactly its one item before the next read; every truncation '
            'offset of streams <= 400 bytes (40 drawn offsets above) is re-run and must give the same per-line output, one item for a partial '
            'line, then only Closed notices. non-trivial = stream with >= 3 message lines and >= 2 non-message lines not all adjacent; distinct '
            'by SHA-1 of the case. cli-options: main.py -p / -l with drawn combinations of -b, -f <everything>, --supress in drawn order: message '
            'and passed-through line counts vs the stream (non-trivial = >= 2 option words and >= 2 messages). many-connections: streams of up to 18 300 connections with chatter: one item per line before the next read.')
    assumptions = ['New/Closed notices and time-gap separator lines are not items (C04, C16)',
                   'chatter contains no timestamp-shaped token, so it denotes no message by an independent definition']
    stages = [Streams(), ManyConnections(), CliOptions(), CliPacing()]


PROP = C08()
