"""C02 - every object mention is attributed to the right incarnation of its id."""
from .. import histgen, tracker, model
from ..runner import Prop, Stage, Result

CHECKS = [tracker.check_attribution]


def nontrivial(specs):
    """some id reaches generation >= 1 and is mentioned afterwards"""
    W = model.MWorld()
    seen_regen = set()
    for m in specs:
        rec = W.step(m)
        objs = [rec['target']] + [o for o in rec['args'] if o is not None and o not in rec['created']]
        if rec['destroyed'] is not None:
            objs.append(rec['destroyed'])
        if any(not o.ghost and o.gen >= 1 for o in objs):
            return True
    return False


class _Base(Stage):
    def finish(self, case, res):
        specs = case['specs']
        for l in histgen.labels_of(specs):
            res.label(l)
        res.label('dialect:' + case.get('dialect', 'new'))
        res.nontrivial = nontrivial(specs)
        from .. import wire
        res.sample = dict(dialect=case.get('dialect', 'new'), lines=[wire.render(m, case.get('dialect', 'new')) for m in specs[:12]], n=len(specs))

    def execute(self, case):
        tr, res = tracker.run_history(case['specs'], CHECKS, case.get('dialect', 'new'))
        self.finish(case, res)
        return res


class Machine(_Base):
    name = 'machine'
    kind = 'machine'

    def examples(self, tier):
        return 240 if tier == 'quick' else 14 * 2000

    def steps(self, tier):
        return 50 if tier == 'quick' else 120

    def machine(self, col, tier):
        return tracker.make_machine(col, self, tier, CHECKS)


class DeepReuse(_Base):
    """forced deep reuse: one id through >= 27 incarnations (letters z -> aa)"""
    name = 'deep-reuse'
    kind = 'given'

    def examples(self, tier):
        return 24 if tier == 'quick' else 14 * 60

    def gen(self, d, tier):
        prof = dict(reuse=0.95, weights=dict(deep=85, message=10, delete=3, bind=2))
        specs = histgen.history(d, nconn=1 if d.chance(0.7) else 2, nmsg=d.int(64, 90), profile=prof)
        return dict(dialect=d.choice(['new', 'old']), specs=specs)


class GdbShaped(_Base):
    """the same histories handed over the way the GDB backend does (no interface on the target of a sent message, declared
    argument interfaces, decoded arrays): attribution must not depend on the printed interface names"""
    name = 'gdb-shaped'
    kind = 'given'

    def examples(self, tier):
        return 120 if tier == 'quick' else 14 * 1000

    def gen(self, d, tier):
        specs = histgen.history(d, nconn=d.int(1, 2), nmsg=d.int(5, 40), profile=dict(reuse=0.7, weights=dict(
            delete=16, bind=16, message=44, server_event=10, sync=6, enum=4, retype=8)))
        return dict(dialect='gdb-shaped', specs=specs)


class C02(Prop):
    id = 'C02'
    rule = ('Hypothesis rule-based machine: rules = step kinds (protocol message, delete_id, registry bind, server-created object, sync) on 1-3 '
            'connections with colliding ids; each step is rendered, decoded and handed to a real ConnectionManager and to the reference model; '
            'after every step target/arguments/delete_id subject, the full object table and the labels on the rendered line are compared. '
            'deep-reuse: generated histories driving one id through >= 27 incarnations. gdb-shaped: histories handed to the connection manager the way '
            'the GDB backend builds messages (sent targets without interface). non-trivial = a history in which an object of generation '
            '>= 1 is mentioned after its creation; distinct by SHA-1 of the spec list.')
    assumptions = ['well-formed histories as constructed by histgen (client ids reused only after delete_id)',
                   'reference model of DESIGN appendix B; enum labels and times are excluded here (C07, C16)']
    stages = [Machine(), DeepReuse(), GdbShaped()]


PROP = C02()
