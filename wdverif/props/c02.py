"""C02 - every object mention is attributed to the right incarnation of its id."""
from .. import histgen, tracker, model
from ..runner import Prop, Stage, Result

CHECKS = [tracker.check_attribution]


def nontrivial(specs):
    """some id reaches generation >= 1 and is mentioned afterwards"""
    W = model.MWorld()
    seen_regen = set()
    for m in specs:
        if m.get('destroy'):
            W.close(m['conn'])
            continue
        rec = W.step(m)
        objs = [rec['target']] + [o for o in rec['args'] if o is not None and o not in rec['created']]
        if rec['destroyed'] is not None:
            objs.append(rec['destroyed'])
        if any(not o.ghost and o.gen >= 1 for o in objs):
            return True
    return False


class _Base(Stage):
    def finish(self, case, res):
        specs = case['specs']
        for l in histgen.labels_of(specs):
            res.label(l)
        res.label('dialect:' + case.get('dialect', 'new'))
        res.nontrivial = nontrivial(specs)
        from .. import wire
        res.sample = dict(dialect=case.get('dialect', 'new'), lines=[wire.render(m, case.get('dialect', 'new')) if not m.get('destroy') else '(connection %s destroyed)' % m['conn'] for m in specs[:12]], n=len(specs))

    def execute(self, case):
        tr, res = tracker.run_history(case['specs'], CHECKS, case.get('dialect', 'new'))
        self.finish(case, res)
        return res


class Machine(_Base):
    name = 'machine'
    kind = 'machine'

    def examples(self, tier):
        return 240 if tier == 'quick' else 14 * 2000

    def steps(self, tier):
        return 50 if tier == 'quick' else 120

    def machine(self, col, tier):
        return tracker.make_machine(col, self, tier, CHECKS, kinds=('message', 'delete', 'bind', 'server_event', 'sync', 'newer', 'retype', 'enum', 'midsession',
                                                                   'server_retype', 'repeat', 'clock_back', 'long_line', 'dead_creates'))


class DeepReuse(_Base):
    """forced deep reuse: one id through >= 27 incarnations (letters z -> aa)"""
    name = 'deep-reuse'
    kind = 'given'

    def examples(self, tier):
        return 24 if tier == 'quick' else 14 * 60

    def gen(self, d, tier):
        prof = dict(reuse=0.95, weights=dict(deep=85, message=10, delete=3, bind=2))
        specs = histgen.history(d, nconn=1 if d.chance(0.7) else 2, nmsg=d.int(64, 90), profile=prof)      # (three letters: see long-sessions)
        return dict(dialect=d.choice(['new', 'old']), specs=specs)


class LongSessions(_Base):
    """thousands of messages on one connection: ids created, used, destroyed and handed out again up to 1500 times (incarnation
    letters beyond z and zz), ids up to 0xfeffffff; expanded from a small drawn template"""
    name = 'long-sessions'
    kind = 'given'

    def examples(self, tier):
        return 10 if tier == 'quick' else 14 * 12

    def gen(self, d, tier):
        return dict(dialect=d.choice(['new', 'old']), template=histgen.gen_long_template(d))

    def execute(self, case):
        specs = histgen.expand_long(case['template'])
        tr, res = tracker.run_long_history(specs, CHECKS, case.get('dialect', 'new'))
        t = case['template']
        res.nontrivial = t['cycles'] >= 27
        res.label('incarnations>=703' if t['cycles'] >= 703 else 'incarnations>=27')
        res.label('messages>=%d000' % (len(specs) // 1000) if len(specs) >= 1000 else 'messages<1000')
        res.label('dialect:' + case.get('dialect', 'new'))
        res.sample = dict(template=t, n=len(specs))
        return res


class GdbShaped(_Base):
    """the same histories handed over the way the GDB backend does (no interface on the target of a sent message, declared
    argument interfaces, decoded arrays): attribution must not depend on the printed interface names"""
    name = 'gdb-shaped'
    kind = 'given'

    def examples(self, tier):
        return 120 if tier == 'quick' else 14 * 1000

    def gen(self, d, tier):
        specs = histgen.history(d, nconn=d.int(1, 2), nmsg=d.int(5, 40), profile=dict(reuse=0.7, weights=dict(
            delete=16, bind=16, message=44, server_event=10, sync=6, enum=4, retype=8)))
        return dict(dialect='gdb-shaped', specs=specs)


class GdbMode(_Base):
    """the same histories as libwayland closures through the real GDB plugin and extract.py on the symbolic gdb stand-in: the
    object table, the attribution of every mention and the shown line must be the model's in GDB mode too"""
    name = 'gdb-mode'
    kind = 'given'

    def examples(self, tier):
        return 120 if tier == 'quick' else 14 * 1000

    def gen(self, d, tier):
        prof = dict(reuse=0.7, server_reuse=0.5, no_unseen_registry=True, weights=dict(delete=16, bind=14, message=40, server_event=10, sync=6, enum=4, retype=8, twins=10, server_retype=6, midsession=7))
        if d.chance(0.6):
            specs = histgen.history(d, nconn=d.int(1, 2), nmsg=d.int(5, 36), tagged=True, profile=prof)
        else:
            specs = histgen.history_with_destroys(d, prof)
        # closures dispatched from several threads (on a server's or an unclassified connection the plugin warns about them, naming
        # the message before it is resolved - nothing about the message itself may change)
        threads = [d.choice([1, 1, 2, 3]) for _ in range(d.int(1, 6))] if d.chance(0.5) else None
        return dict(dialect='gdb-shaped', specs=specs, vprefix=d.choice(['', '', '3']), threads=threads)

    def execute(self, case):
        res = Result()
        res.evals = 0
        tr = tracker.GdbTracker(case.get('vprefix', ''), case.get('threads'))
        try:
            for spec in case['specs']:
                if spec.get('destroy'):
                    tr.destroy(spec['conn'])
                    continue
                try:
                    msg, rec = tr.apply(spec)
                except tracker.GdbModeLost as e:
                    res.bad('gdb-mode:message-lost', str(e))
                    break
                for chk in CHECKS:
                    chk(tr, msg, rec, res, ':gdb-mode')
        finally:
            tr.close()
        self.finish(case, res)
        if any(t != 1 for t in case.get('threads') or []): res.label('several-threads')
        return res


class FreshProcess(_Base):
    """what a line says about an object must not depend on which other lines were displayed before it: the history is shown
    by a fresh main.py process once in full and once behind a filter that hides earlier incarnations; every line of the
    filtered run must read exactly as in the full run, and the full run must read as the model says"""
    name = 'fresh-process'
    kind = 'given'

    def examples(self, tier):
        return 36 if tier == 'quick' else 14 * 150

    def gen(self, d, tier):
        prof = dict(reuse=0.95, server_reuse=0.8, weights=dict(deep=30, message=30, delete=16, bind=8, server_event=12, sync=4, long_line=3))
        specs = histgen.history(d, nconn=d.int(1, 2), nmsg=d.int(12, 45), profile=prof)
        if d.chance(0.35) and len(specs) > 3:
            # the clock steps back in the middle of the log (32-bit wrap, stepped realtime clock): still one log, the same connections
            k = d.int(1, len(specs) - 1)
            delta = min(specs[k]['t_us'], d.choice([1_500_000, 2_500_000, 100_000_000, 4_000_000_000]))
            for m in specs[k:]:
                m['t_us'] -= delta
        names = sorted({m['name'] for m in specs[len(specs) // 2:]})
        types = sorted({m['iface'] for m in specs[len(specs) // 2:]})
        flt = d.choice(['.' + d.choice(names), d.choice(types), d.choice(types) + ', .' + d.choice(names), '* ! .sync, .delete_id', '.destroyed'])
        return dict(dialect=d.choice(['new', 'old']), specs=specs, filter=flt)

    def execute(self, case):
        import re
        from .. import cli, wire, session
        res = Result()
        res.evals = 0
        specs, dialect = case['specs'], case.get('dialect', 'new')
        text = ''.join(wire.render(m, dialect) + '\n' for m in specs)
        with cli.Scratch() as sc:
            log = sc.write('h.log', text)
            rc_a, out_a, err_a = cli.run_main(['-C', '-l', log], stdin=b'q\n')
            rc_f, out_f, err_f = cli.run_main(['-C', '-l', log, '-f', case['filter']], stdin=b'q\n')
        if rc_a is None or rc_f is None:
            res.label('timeout(inconclusive)')
            self.finish(case, res)
            return res
        if rc_a != 0 or rc_f != 0:
            res.bad('fresh-process:exit-status', 'full %r filtered %r: %r' % (rc_a, rc_f, (err_a + err_f)[-300:]))
        body = lambda out: [mm.group(2) + ': ' + mm.group(3) for mm in (session.MSG_LINE.match(l) for l in out.decode('utf-8', 'replace').split('\n')) if mm]
        full, filt = body(out_a), body(out_f)
        # the full run against the model (labels of every mention)
        W = model.MWorld()
        recs = [W.step(m) for m in specs]
        if len(full) != len(recs):
            res.bad('fresh-process:line-count', '%d lines shown for %d messages' % (len(full), len(recs)))
        else:
            for l, rec in zip(full, recs):
                res.evals += 1
                rx = re.escape(rec['conn'].name + ': ') + tracker.expected_line_regex(rec, dialect)
                if not re.fullmatch(rx, l):
                    res.bad('fresh-process:rendered-line', 'shown %r, expected to match %r' % (l, rx))
                    break
        # the filtered run: a subsequence of the full run, line for line identical
        pos = 0
        for l in filt:
            res.evals += 1
            try:
                pos = full.index(l, pos) + 1
            except ValueError:
                res.bad('fresh-process:filtered-line-reads-differently', 'with -f %r the line %r appears; the full run has no such line (there: %r)' % (
                    case['filter'], l, [x for x in full if x.split('(')[0].split('@')[0] == l.split('(')[0].split('@')[0]][:3]))
                break
        res.count('filtered-lines-compared', len(filt))
        self.finish(case, res)
        res.nontrivial = res.nontrivial and 0 < len(filt) < len(full)
        if 0 < len(filt) < len(full): res.label('filter-hides-some')
        return res


class C02(Prop):
    id = 'C02'
    rule = ('Hypothesis rule-based machine: rules = step kinds (protocol message, delete_id, registry bind, server-created object, sync) on 1-3 '
            'connections with colliding ids; each step is rendered, decoded and handed to a real ConnectionManager and to the reference model; '
            'after every step target/arguments/delete_id subject, the full object table and the labels on the rendered line are compared. '
            'deep-reuse: generated histories driving one id through >= 27 incarnations. long-sessions: a drawn template (1-3 ids incl. 0x7fffffff / 0xfeffffff, alternating interfaces, 27..1500 create-use-destroy cycles) expanded to up to ~12 000 messages; comparisons around the letter boundaries (26/27, 702/703), every 97th step and over the last 60. gdb-shaped: histories handed to the connection manager the way '
            'the GDB backend builds messages (sent targets without interface). non-trivial = a history in which an object of generation '
            '>= 1 is mentioned after its creation; distinct by SHA-1 of the spec list. Histories include messages on objects never seen created (a log that starts '
            'mid-session): they stay unresolved, what they create exists. fresh-process: reuse-heavy histories shown by a fresh main.py process in full and behind a '
            'filter; the full run is compared with the model line by line, every filtered line must read exactly as in the full run. gdb-mode: the histories as '
            'libwayland closures through the real plugin and extract.py on the symbolic gdb stand-in (incl. same-named same-signature messages of different interfaces). gdb-mode histories contain objects never seen created: a closure sent on one is untyped (interface and argument names not judged), what it creates exists.')
    assumptions = ['well-formed histories as constructed by histgen (client ids reused only after delete_id)',
                   'reference model of DESIGN appendix B; enum labels and times are excluded here (C07, C16)']
    stages = [Machine(), DeepReuse(), LongSessions(), GdbShaped(), GdbMode(), FreshProcess()]


PROP = C02()
