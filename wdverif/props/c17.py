"""C17 - colour is presentation only."""
import re
from .. import env, histgen, session, wire, scripts, refmatch as rm
from ..runner import Prop, Stage, Result
from .c08 import gen_chatter

PROFILE = dict(reuse=0.6, weights=dict(repeat=4, newer=4, delete=16, bind=12, message=40, server_event=8, sync=6, enum=16, title=6, kinds=18))
PALETTE = ['2;37', '1;96', '36', '1;94', None, '95', '2;35', '93', '1;33', '35', '1;37', '1;92', '1;91', '1;31', '0', '']
ESC = '\x1b'


def strip(s):
    return re.sub(r'\x1b\[[\d;]*m', '', s)


def run(items, color, flt=None, brk=None, supress=False):
    s = session.Session(color=color, filter_text=flt, break_text=brk, show_unprocessed=not supress)
    s.run(items)
    return s


class Sessions(Stage):
    name = 'sessions'

    def examples(self, tier):
        return 250 if tier == 'quick' else 14 * 2500

    def gen(self, d, tier):
        specs = histgen.history(d, nconn=d.int(1, 3), nmsg=d.int(4, 30), profile=PROFILE)
        dialect = d.choice(['new', 'old'])
        items = scripts.gen_script(d, specs, dialect, list_heavy=d.chance(0.4))
        g = rm.Gen(d, rm.vocab(specs), 1)
        extra = []
        t = specs[-1]['t_us']
        sep = '@' if dialect == 'old' else '#'
        tag = ('<%s> ' % specs[-1]['conn']) if specs[-1]['conn'] is not None else ''
        for _ in range(d.int(0, 4)):
            k = d.int(0, 5)
            t += 1000
            ts = wire.timestamp(t, dialect)
            if k == 0: extra.append(['line', gen_chatter(d) if d.chance(0.5) else d.choice(['\x1b[33mwarning:\x1b[0m colour used by the program', '\x1b[1mleft open', 'Gtk \x1b[31;1mCRITICAL\x1b[m x', '\x1b[0m', 'name\tvalue', 'PID\tCMD\t%CPU', 'a\t\tb c'])])
            elif k == 1: extra.append(['line', '%s%s -> wl_display%s1.error(?!, 2, "x")' % (ts, tag, sep)])          # Unknown argument
            elif k == 2: extra.append(['line', '%s%swl_display%s1.error(wl_surface%s98765, 1, "unresolved")' % (ts, tag, sep, sep)])   # unresolved object
            elif k == 3: extra.append(['line', '%s%swl_nonexistent%s4242.frob(new id [unknown]%s77)' % (ts, tag, sep, sep)])
            elif k == 4: extra.append(['cmd', d.choice(['help', 'help list', 'help matcher', 'help filter', 'h wlbreakpoint', 'help nonsense', 'connection', 'filter', 'breakpoint',
                                                          'matcher', 'matcher ' + scripts.gen_matcher_text(d, g), 'matcher (', 'list ~ x', 'li', 'frob', '', 'connection Q',
                                                          'filter ' + d.choice(scripts.MALFORMED), 'breakpoint ' + d.choice(scripts.MALFORMED)])])
            else: extra.append(['cmd', 'list ' + scripts.gen_matcher_text(d, g)])
        if d.chance(0.4):
            # fixed-point arguments that are exactly zero (and minus zero as libwayland prints it), integers that are zero, empty strings
            t += 1000
            z = d.choice(['0.00000000', '-0.00000000', '0.00000000']) if dialect == 'new' else d.choice(['0.000000', '-0.000000'])
            extra.append(['line', '%s%swl_pointer%s%d.motion(0, %s, %s)' % (wire.timestamp(t, dialect), tag, sep, 905 + d.int(0, 3), z, d.choice([z, '7.25000000' if dialect == 'new' else '7.250000']))])
            if d.chance(0.5):
                extra.append(['line', '%s%s -> zz_unknown%s%d.frob(0, %s, "", nil)' % (wire.timestamp(t + 10, dialect), tag, sep, 915, z)])
        # label matchers over enum-decorated messages (what a matcher compares must not carry presentation) and the long help texts
        V = rm.vocab(specs)
        labs = [str(x) for x in (V.get('label') or [])]
        if labs and d.chance(0.6):
            for _ in range(d.int(1, 3)):
                lab = d.choice(labs)
                extra.append(['cmd', d.choice(['list (%s)', 'list .(%s)', 'filter (%s)', 'list * ! (%s)', 'breakpoint (%s)']) % lab])
        if d.chance(0.3):
            # wildcards made of characters that also occur in escape sequences, against objects of unknown type (shown as ???)
            extra.append(['line', '%s%swl_nonexistent%s4243.frob(new id [unknown]%s78, nil)' % (wire.timestamp(t + 5000, dialect), tag, sep, sep)])
            extra.append(['cmd', d.choice(['list ', 'filter ', 'list * ! ']) + d.choice(['*m*', '*0*', '*1*', '*9*', '(*m*)', '(*1*)', '*m'])])
        if d.chance(0.25):
            extra.append(['cmd', d.choice(['help matcher', 'help wlmatcher', 'h matcher', 'help', 'help list', 'help connection'])])
        if d.chance(0.35):
            # a connection named by text that also occurs inside escape sequences, or by a word of its description: whatever
            # the tool makes of it, it must make the same of it in both settings (shown by the connection list and a listing)
            for _ in range(d.int(1, 2)):
                extra.append(['cmd', 'connection ' + d.choice(['1', '0', 'm', '[', '37', '0m', '1;3', 'client', 'server', 'closed', 'open', 'unknown', ')', ',', 'A (', 'B'])])
                extra.append(['cmd', 'connection'])
                extra.append(['cmd', 'list ~ 3'])
        # splice the extras at drawn positions
        for e in extra:
            items.insert(d.int(0, len(items)), e)
        if d.chance(0.3):
            # a connection known by a long window title (or layer-surface namespace), then the list of connections
            title = d.choice(histgen.LONG_TITLES + ['Document 1 - a title of some forty-five characters', 'y' * d.int(30, 90)])
            items.append(['line', '%s%s -> xdg_toplevel%s%d.set_title("%s")' % (wire.timestamp(t + 9000, dialect), tag, sep, 900 + d.int(0, 3), title)])
            items.append(['cmd', d.choice(['connection', 'c', 'connection Q'])])
        return dict(specs=specs, dialect=dialect, items=items, filter=scripts.gen_matcher_text(d, g) if d.chance(0.3) else None,
                    brk=scripts.gen_matcher_text(d, g) if d.chance(0.3) else None, supress=d.chance(0.2))

    def execute(self, case):
        res = Result()
        plain = run(case['items'], False, case.get('filter'), case.get('brk'), case.get('supress'))
        col = run(case['items'], True, case.get('filter'), case.get('brk'), case.get('supress'))
        input_esc = sum(i[1].count(ESC) for i in case['items'] if i[0] == 'line')
        for nm, a, b in (('out', plain.out.buffer, col.out.buffer), ('err', plain.err.buffer, col.err.buffer)):
            allowed = input_esc if (nm == 'out' and not case.get('supress')) else 0
            if a.count(ESC) > allowed:
                i = a.index(ESC)
                res.bad('escape-with-colour-disabled:' + nm, 'plain %s stream contains %d escapes, the input lines passed through carry %d: %r' % (
                    nm, a.count(ESC), allowed, a[max(0, i - 40):i + 40]))
            sb = strip(b)
            if input_esc:
                a = strip(a)          # escapes that came with the input are compared away on both sides
            if sb != a:
                la, lb = a.split('\n'), sb.split('\n')
                k = next((i for i, (x, y) in enumerate(zip(la, lb)) if x != y), min(len(la), len(lb)))
                res.bad('stripped-colour-differs:' + nm, 'line %d: plain %r, coloured-and-stripped %r (raw %r)' % (
                    k, la[k] if k < len(la) else None, lb[k] if k < len(lb) else None, b.split('\n')[k] if k < len(b.split('\n')) else None))
        if ESC not in col.out.buffer and len(plain.out.buffer) > 0:
            res.bad('colour-switch-dead', 'coloured run printed no escape sequence at all')
        res.evals = len(plain.out.buffer.split('\n')) + len(plain.err.buffer.split('\n'))
        o = plain.out.buffer
        has = dict(enum=bool(re.search(r'=\d+:[\w(]', o)), destroyed='.destroyed' in o, error='Error: ' in plain.err.buffer,
                   listing='Messages that match' in o, unknown='Unknown: ' in o, unresolved='unresolved ' in o, passthrough='   |  ' in o)
        for k, v in has.items():
            if v: res.label('prints-' + k)
        res.nontrivial = has['enum'] and has['destroyed'] and has['error'] and has['listing']
        res.sample = dict(items=[i[1][:90] if i[0] == 'line' else '$ ' + i[1] for i in case['items'][:10]])
        return res


COMMANDS = ['filter {m}', 'breakpoint {m}', 'list {m} ~ 2', 'list {m}', 'connection A', 'connection all', 'matcher {m}', 'help list', 'f !', 'b !', 'wl filter {m}',
            'wlfilter {m}', 'list ~ 3', 'c b', 'frobnicate {m}', 'filter (', 'help', 'filter']


def colourise(text, cuts, picks):
    """split `text` at `cuts` and wrap the segments chosen by `picks` with the tool's own color()"""
    from core import util
    cuts = sorted({c for c in cuts if 0 < c < len(text)})
    segs = [text[a:b] for a, b in zip([0] + cuts, cuts + [len(text)])]
    old = util.color_output
    util.color_output = True
    try:
        out = ''
        for i, sgm in enumerate(segs):
            p = picks[i % len(picks)]
            if p < 0:
                out += sgm
            else:
                c = PALETTE[p % len(PALETTE)]
                if c == '0' or c == '':
                    out += ESC + '[' + c + 'm' + sgm
                else:
                    out += util.color(c, sgm)
        return out
    finally:
        util.color_output = old


class PasteBack(Stage):
    name = 'paste-back'

    def examples(self, tier):
        return 600 if tier == 'quick' else 14 * 4000

    def gen(self, d, tier):
        specs = histgen.history(d, nconn=d.int(1, 2), nmsg=d.int(3, 14), profile=PROFILE)
        g = rm.Gen(d, rm.vocab(specs), 1)
        cmds = []
        for _ in range(d.int(1, 4)):
            t = d.choice(COMMANDS).replace('{m}', scripts.gen_matcher_text(d, g))
            t = d.choice(['', '', ' ', '  ', '\t']) + t + d.choice(['', '', ' ', '\t'])
            cuts = [d.int(0, max(1, len(t))) for _ in range(d.int(0, 4))]
            picks = [d.int(-1, len(PALETTE) - 1) if d.chance(0.7) else -1 for _ in range(5)]
            cmds.append(dict(text=t, cuts=cuts, picks=picks))
        as_option = d.chance(0.25)
        # the commands are handed to the controller directly (as GDB mode does) or typed at the tool's own prompt (file / run mode)
        return dict(specs=specs, cmds=cmds, color=d.chance(0.3), as_option=as_option, via_prompt=d.chance(0.5))

    def execute(self, case):
        from core import matcher
        res = Result()
        res.evals = 0
        lines = [['line', wire.render(m, 'new')] for m in case['specs']]
        sp = run(lines, case.get('color', False))
        sc = run(lines, case.get('color', False))
        env.log_capture.take()
        wrapped_any = False
        for c in case['cmds']:
            plain = c['text']
            col = colourise(plain, c['cuts'], c['picks'])
            if col != plain:
                wrapped_any = True
            if strip(col) != plain:
                continue    # the palette entry itself was malformed for this segmentation: not the tool's colouring
            res.evals += 1
            r = []
            for s, text in ((sp, plain), (sc, col)):
                n0, n1 = len(s.out.buffer), len(s.err.buffer)
                exc = None
                try:
                    if case.get('via_prompt'):
                        from frontends.tui import TerminalUI
                        script = [text, 'resume']
                        TerminalUI(s.ctl, s.ctl, lambda prompt: script.pop(0) if script else 'resume').run_until_stopped()
                    else:
                        s.ctl.process_command(text)
                except Exception as e:      # noqa - reported as a discrepancy below, with the frame
                    exc = '%s: %s' % (type(e).__name__, e)
                sel = s.ctl.current_connection.name() if s.ctl.current_connection else None
                r.append((strip(s.out.buffer[n0:]), strip(s.err.buffer[n1:]), strip(str(s.ctl.display_matcher)), strip(str(s.ctl.stop_matcher)), sel, exc))
            if r[0][5] is None and r[1][5] is not None:
                res.bad('coloured-command-raises', 'plain %r fine, coloured %r raised %s' % (plain, col, r[1][5]))
                break       # the two sessions have diverged: later differences would only echo this one
            elif r[0] != r[1]:
                what = [n for n, x, y in zip(('out', 'err', 'filter', 'breakpoint', 'selection', 'exception'), r[0], r[1]) if x != y]
                res.bad('coloured-command-differs:' + '+'.join(what), 'plain %r vs coloured %r: %r vs %r' % (plain, col, [r[0][i] for i in range(6) if r[0][i] != r[1][i]][:1], [r[1][i] for i in range(6) if r[0][i] != r[1][i]][:1]))
                break
            # the same text as a matcher (as -f / -b / list argument would be parsed)
            mt = plain.strip().split(None, 1)
            if case.get('as_option') and len(mt) == 2:
                body_plain = mt[1]
                body_col = colourise(body_plain, c['cuts'], c['picks'])
                if strip(body_col) == body_plain:
                    outs = []
                    for text in (body_plain, body_col):
                        try:
                            outs.append(('ok', strip(str(matcher.parse(text).simplify()))))
                        except RuntimeError as e:
                            outs.append(('rejected',))
                    if outs[0][0] != outs[1][0] or (outs[0][0] == 'ok' and outs[0] != outs[1]):
                        res.bad('coloured-matcher-differs', '%r -> %r, coloured %r -> %r' % (body_plain, outs[0], body_col, outs[1]))
        res.nontrivial = wrapped_any
        if wrapped_any: res.label('some-segment-coloured')
        if case.get('via_prompt'): res.label('typed-at-the-prompt')
        if any(c['text'] != c['text'].lstrip() for c in case['cmds']): res.label('leading-blank')
        res.sample = dict(commands=[colourise(c['text'], c['cuts'], c['picks']) for c in case['cmds']])
        return res


class CliTexts(Stage):
    """the texts main.py prints on its own (matcher help, usage, argument errors, a whole file shown with -l and a prompt script)
    under --color and -C, from fresh processes"""
    name = 'cli-texts'

    def examples(self, tier):
        return 10 if tier == 'quick' else 14 * 20

    def gen(self, d, tier):
        k = d.weighted([(3, 'matcher-help'), (1, 'usage'), (2, 'bad-option'), (4, 'file')])
        if k == 'file':
            specs = histgen.history(d, nconn=d.int(1, 2), nmsg=d.int(3, 14), profile=PROFILE)
            g = rm.Gen(d, rm.vocab(specs), 1)
            cmds = [d.choice(['help matcher', 'help', 'connection', 'list', 'list ' + scripts.gen_matcher_text(d, g), 'matcher ' + scripts.gen_matcher_text(d, g), 'filter (', 'frob'])
                    for _ in range(d.int(0, 4))]
            return dict(kind=k, lines=[wire.render(m, 'new') for m in specs], cmds=cmds, filter=scripts.gen_matcher_text(d, g) if d.chance(0.3) else None,
                        both=d.choice([['-C', '--color'], ['--color', '-C'], ['--no-color', '--color']]))
        both = d.choice([['-C', '--color'], ['--color', '-C'], ['--no-color', '--color'], ['--color', '--no-color']])
        if k == 'bad-option':
            return dict(kind=k, both=both, argv=d.choice([['-f', '('], ['-b', 'a.b.c'], ['-l'], ['--nonsense'], ['-f', 'x ! y ! z', '-p'], ['-Crx', 'prog']]))
        return dict(kind=k, both=both)

    def execute(self, case):
        from .. import cli
        res = Result()
        res.evals = 0
        with cli.Scratch() as sc:
            if case['kind'] == 'matcher-help':
                base, stdin = ['--matcher-help'], b''
            elif case['kind'] == 'usage':
                base, stdin = ['-h'], b''
            elif case['kind'] == 'bad-option':
                base, stdin = list(case['argv']), b'q\n'
            else:
                log = sc.write('f.log', ''.join(l + '\n' for l in case['lines']))
                base = ['-l', log] + (['-f', case['filter']] if case.get('filter') else [])
                stdin = ''.join(c + '\n' for c in case['cmds']).encode() + b'q\n'
            rp = cli.run_main(['-C'] + base, stdin=stdin)
            rc = cli.run_main(['--color'] + base, stdin=stdin)
            # both options at once: the tool says it ignores --color, so colour is disabled - in either order, long or short
            both = case.get('both') or ['-C', '--color']
            rb = cli.run_main(both + base, stdin=stdin)
        if rb[0] is not None and rp[0] is not None:
            ob, op = rb[1].decode('utf-8', 'replace'), rp[1].decode('utf-8', 'replace')
            if ESC in ob or ESC in rb[2].decode('utf-8', 'replace'):
                res.bad('cli:escape-with-colour-disabled:both-options', '%r: output carries escape sequences' % (both + base[:1],))
            elif ob != op:
                res.bad('cli:both-options-differ-from-no-color', '%r vs -C' % (both,))
        if rp[0] is None or rc[0] is None:
            res.label('timeout(inconclusive)')
            return res
        if rp[0] != rc[0]:
            res.bad('cli:exit-status-depends-on-colour', '%r: -C exits %r, --color exits %r' % (base, rp[0], rc[0]))
        for nm, a, b in (('stdout', rp[1], rc[1]), ('stderr', rp[2], rc[2])):
            a, b = a.decode('utf-8', 'replace'), b.decode('utf-8', 'replace')
            res.evals += len(a.split('\n'))
            if ESC in a:
                i = a.index(ESC)
                res.bad('cli:escape-with-colour-disabled:' + nm, '%r: %r' % (base, a[max(0, i - 40):i + 40]))
            sb = strip(b)
            if sb != a:
                la, lb = a.split('\n'), sb.split('\n')
                k = next((i for i, (x, y) in enumerate(zip(la, lb)) if x != y), min(len(la), len(lb)))
                res.bad('cli:stripped-colour-differs:' + nm, '%r line %d: -C %r, --color stripped %r' % (base[:1], k, la[k] if k < len(la) else None, lb[k] if k < len(lb) else None))
        res.nontrivial = True
        res.label('cli-' + case['kind'])
        res.sample = dict(kind=case['kind'], argv=[str(x)[:60] for x in base])
        return res


class C17(Prop):
    id = 'C17'
    rule = ('sessions: a generated history with chatter, an Unknown-argument line, an unresolved object, commands of every kind including '
            'errors/help/matcher/listings, run once with colour off and once with colour on: stripping the escapes of the coloured out/err '
            'streams must give the plain streams character for character, the plain streams must contain no escape, the coloured ones some. '
            'paste-back: command texts split into segments, each optionally wrapped by the tool\'s own color() with a code of its palette '
            '(including None = bare reset): output, resulting filter/breakpoint/selection or error must equal those of the plain text. '
            'non-trivial = session printing an enum label, a destroyed annotation, an error line and a listing / a paste-back with a coloured '
            'segment; distinct by SHA-1 of the case.')
    assumptions = ['escape sequences are the SGR sequences the tool emits (\\x1b[...m)']
    stages = [Sessions(), PasteBack(), CliTexts()]


PROP = C17()
