"""C06 - the live view shows exactly the messages matching the current filter."""
from .. import env, histgen, session, wire, scripts, refmatch as rm
from ..runner import Prop, Stage, Result

PROFILE = dict(reuse=0.6, weights=dict(repeat=4, newer=4, delete=12, bind=12, message=52, server_event=8, sync=6, enum=10, title=8, appid=5, long_line=2))


def evaluate(case, res):
    s, segs = scripts.run_script(case, res)
    w = scripts.Walker(s, res, case.get('initial_filter'))
    for seg in segs:
        if seg.kind == 'line':
            m, exp, shown = w.on_line(seg)
            if m is None:
                continue
            res.evals += 1
            if exp is None:
                res.count('filter-meaning-not-modelled(skipped)')
                continue
            if exp:
                w.changes['shown'] += 1
            else:
                w.changes['hidden'] += 1
            if len(shown) > 1:
                res.bad('shown-more-than-once', '%r shown %d times: %r' % (seg.text, len(shown), shown))
            elif bool(shown) != exp:
                res.bad('shown-but-filtered-out' if shown else 'matching-message-not-shown',
                        '%r %s; filter %r, selection %r' % (seg.text, 'shown' if shown else 'not shown', w.filter_text, w.sel))
            elif shown and shown != session.render_shown([m]):
                res.bad('shown-line-is-not-the-message', '%r, the message renders as %r' % (shown, session.render_shown([m])))
        elif seg.kind == 'cmd':
            before = len(s.ctl.all_messages)
            it = s.io.items[seg.index]
            k = w.on_cmd_state(seg.text, it[3] if len(it) > 3 else None)
            if [l for l in seg.out_lines() if session.MSG_LINE.match(l)] and not k.startswith('list'):
                res.bad('command-prints-message-lines', '%r printed %r' % (seg.text, seg.out_lines()[:3]))
    # everything is recorded, shown or not, in arrival order
    nlines = sum(1 for i in case['items'] if i[0] == 'line')
    if len(s.ctl.all_messages) != nlines:
        res.bad('record-incomplete', '%d recorded, %d arrived' % (len(s.ctl.all_messages), nlines))
    per_conn = {}
    for m in s.ctl.all_messages:
        per_conn.setdefault(w.conn_of.get(id(m)), []).append(m)
    for c in s.cm.connections():
        if list(c.messages()) != per_conn.get(c.name(), []):
            res.bad('connection-record-differs', 'Connection.messages() of %s is not its messages in arrival order' % c.name())
    n0 = len(s.out.buffer)
    s.ctl.process_command('connection all')
    n1 = len(s.out.buffer)
    s.ctl.process_command('list *')
    listed = [l for l in s.out.buffer[n1:].split('\n')[:-1] if session.MSG_LINE.match(l)]
    if listed != session.render_shown(s.ctl.all_messages):
        res.bad('list-star-is-not-the-record', '%d listed, %d recorded' % (len(listed), len(s.ctl.all_messages)))
    if len(listed) != nlines:
        res.bad('list-star-incomplete', '%d listed, %d arrived' % (len(listed), nlines))
    # ... and connection by connection: selecting one must make exactly its own record queryable (whatever the messages are on)
    for c in s.cm.connections():
        s.ctl.process_command('connection ' + c.name())
        n2 = len(s.out.buffer)
        s.ctl.process_command('list *')
        listed = [l for l in s.out.buffer[n2:].split('\n')[:-1] if session.MSG_LINE.match(l)]
        if listed != session.render_shown(per_conn.get(c.name(), [])):
            res.bad('list-star-of-selected-connection', 'connection %s: %d listed, %d of its messages arrived' % (c.name(), len(listed), len(per_conn.get(c.name(), []))))
    s.ctl.process_command('connection all')
    return w


class Sessions(Stage):
    name = 'sessions'

    def examples(self, tier):
        return 300 if tier == 'quick' else 14 * 2500

    def gen(self, d, tier):
        specs = histgen.history(d, nconn=d.int(1, 3), nmsg=d.int(4, 40), profile=PROFILE, tagged=True)
        dialect = d.choice(['new', 'new', 'old'])
        initial = None
        ik = d.weighted([(50, 'none'), (28, 'generated'), (22, 'collapse')])
        if ik == 'generated':
            g = rm.Gen(d, rm.vocab(specs), 1)
            initial = scripts.gen_matcher_text(d, g)
        elif ik == 'collapse':
            initial = d.choice(['!', '*.*', 'wl_seat ! *', '*', '* . *', 'wl_display, *', '!'])      # start-up filters that collapse to a constant
        return dict(dialect=dialect, specs=specs, initial_filter=initial, items=scripts.gen_script(d, specs, dialect))

    def execute(self, case):
        res = Result()
        res.evals = 0
        w = evaluate(case, res)
        c = w.changes
        res.nontrivial = c['filter'] >= 1 and c['selection'] >= 1 and c['shown'] >= 1 and c['hidden'] >= 1
        for k in ('filter', 'selection'):
            if c[k]: res.label(k + '-changed-mid-stream')
        if case.get('initial_filter'): res.label('initial -f filter')
        if c['shown'] and c['hidden']: res.label('some-shown-some-hidden')
        if len({m['conn'] for m in case['specs']}) > 1: res.label('multi-connection')
        res.count('messages-shown', c['shown'])
        res.count('messages-hidden', c['hidden'])
        res.sample = dict(initial_filter=case.get('initial_filter'), items=[i[1] if i[0] == 'line' else '$ ' + i[1] for i in case['items'][:14]])
        return res


class CrossTalk(Stage):
    """breakpoint commands must never influence the live view: a short prelude of filter / breakpoint commands made of
    simple atoms (so that the filter's meaning is known exactly), then the whole history streams in"""
    name = 'cross-talk'

    def examples(self, tier):
        return 400 if tier == 'quick' else 14 * 2000

    def gen(self, d, tier):
        specs = histgen.history(d, nconn=d.int(1, 2), nmsg=d.int(6, 30), profile=PROFILE, tagged=True)
        V = rm.vocab(specs)
        simple = ['wl_display', 'wl_registry', 'wl_callback', '.bind', '.sync', '.delete_id', '.new', '.destroyed', '2', '3'] + [
            str(t) for t in V.get('type', [])[:6]] + ['.' + str(n) for n in V.get('name', [])[:8]]
        # the same spelling as a quoted string and as a bare word / object: different alternatives that print alike
        bound = [x for x in (V.get('str') or []) if x in ('wl_seat', 'wl_shm', 'wl_compositor', 'wl_output', 'xdg_wm_base')][:2]
        for w in bound:
            simple += ['.("%s")' % w, w, '(%s)' % w, '.("%s")' % w]
        items = []
        for _ in range(d.int(2, 7)):
            alts = [d.choice(simple) for _ in range(d.int(0 if items else 1, 2))]
            if items and d.chance(0.2):
                alts.insert(d.int(0, len(alts)), d.choice(['*', '*.*', '* . *']))     # selects everything: earlier exclusions stay
            excl = [d.choice(simple) for _ in range(d.int(0 if alts else 1, 1))]
            t = (', '.join(alts) + (' ! ' + ', '.join(excl) if excl else '')).strip()
            if d.chance(0.5):
                items.append(['cmd', 'filter ' + t, None, dict(alts=alts, excl=excl)])
            else:
                items.append(['cmd', 'breakpoint ' + t])
        twin = None
        if d.chance(0.3):
            # twins accumulated by two commands: a quoted string, then the same spelling as a bare object (or the other way round);
            # a registry announcing that interface is selected by the string alternative only
            twin = d.choice(['wl_seat', 'wl_shm', 'wl_compositor'])
            pair = ['.("%s")' % twin, twin]
            if d.chance(0.3):
                pair.reverse()
            for a in pair:
                items.append(['cmd', 'filter ' + a, None, dict(alts=[a], excl=[])])
        lines = [['line', wire.render(m, 'new'), m['conn']] for m in specs]
        if twin:
            for _ in range(d.int(1, 2)):
                k = d.int(0, len(lines))
                ref = specs[min(k, len(specs) - 1)]
                tagtxt = ('<%s> ' % ref['conn']) if ref['conn'] is not None else ''
                lines.insert(k, ['line', wire.timestamp(ref['t_us'], 'new') + tagtxt + 'wl_registry#%d.global(%d, "%s", %d)' % (900 + d.int(0, 5), d.int(1, 40), twin, d.int(1, 9)), ref['conn']])
        items += lines
        return dict(dialect='new', specs=specs, initial_filter=None, items=items)

    def execute(self, case):
        res = Result()
        res.evals = 0
        w = evaluate(case, res)
        c = w.changes
        res.nontrivial = c['shown'] >= 1 and c['hidden'] >= 1 and any(i[0] == 'cmd' and i[1].startswith('breakpoint') for i in case['items'])
        res.label('cross-talk-prelude')
        res.sample = dict(items=[i[1] if i[0] == 'line' else '$ ' + i[1] for i in case['items'][:10]])
        return res


class SinkSessions(Stage):
    """the same property on the connection-id interface (what GDB mode drives): connections are opened, closed and their
    ids re-used while messages stream in and the selection / filter change"""
    name = 'sink-sessions'

    def examples(self, tier):
        return 200 if tier == 'quick' else 14 * 1500

    def gen(self, d, tier):
        ids = ['x', 'y', 'gdb_conn:0x55']
        ops, is_open = [], set()
        for _ in range(d.int(4, 40)):
            k = d.weighted([(3, 'open'), (2, 'close'), (9, 'message'), (3, 'select'), (2, 'filter')])
            if k == 'message' and is_open:
                ops.append(['message', d.choice(sorted(is_open)), d.choice(['sync', 'done', 'get_registry', 'delete_id'])])
            elif k == 'close' and is_open:
                c = d.choice(sorted(is_open))
                is_open.discard(c)
                ops.append(['close', c])
            elif k == 'select':
                ops.append(['cmd', 'connection ' + d.choice(['A', 'B', 'C', 'D', 'all', 'all', 'Q'])])
            elif k == 'filter':
                ops.append(['cmd', 'filter !'])
                ops.append(['cmd', 'filter ' + d.choice(['*', 'wl_display', '.sync', '.done, .delete_id', 'wl_callback', 'B:', '* ! .sync'])])
            else:
                c = d.choice(ids)
                is_open.add(c)
                ops.append(['open', c, d.choice([None, True, False])])
        return dict(ops=ops)

    def execute(self, case):
        from core import ConnectionManager, matcher, wl
        from core.output import Output, stream
        from frontends.tui import Controller
        from backends.libwayland_debug_output import parse
        from .. import model
        env.reset_globals()
        res = Result()
        res.evals = 0
        out = stream.String()
        cm = ConnectionManager()
        ctl = Controller(Output(False, True, out, stream.String()), cm, matcher.always, matcher.never)
        names, allc, opened = {}, [], {}      # id -> model connection (open); all model connections
        sel, flt, never = None, matcher.always, False
        t = 0
        nxt = {}
        shown = hidden = 0
        reopen = False
        closed_ids = set()
        for op in case['ops']:
            n0 = len(out.buffer)
            t += 250000
            if op[0] == 'open':
                if op[1] in closed_ids:
                    reopen = True
                mc = dict(name=model.letters(len(allc), caps=True), msgs=[], next=2)
                opened[op[1]] = mc
                allc.append(mc)
                cm.open_connection(t / 1e6, op[1], op[2])
            elif op[0] == 'close':
                opened.pop(op[1], None)
                closed_ids.add(op[1])
                cm.close_connection(t / 1e6, op[1])
            elif op[0] == 'cmd':
                ctl.process_command(op[1])
                a = op[1].split(' ', 1)[1]
                if op[1].startswith('connection'):
                    if a == 'all':
                        sel = None
                    else:
                        for mc in allc:
                            if mc['name'] == a:
                                sel = a
                elif a == '!':
                    never = True
                else:
                    flt, never = matcher.parse(a).simplify(), False
            else:
                mc = opened[op[1]]
                kind = op[2]
                ts = '[%d.%03d]' % (t // 1000, t % 1000)
                cbs = mc.setdefault('cbs', [])
                if kind == 'sync' or (kind in ('done', 'delete_id') and not cbs):
                    line = '%s  -> wl_display@1.sync(new id wl_callback@%d)' % (ts, mc['next'])
                    cbs.append(mc['next'])
                    mc['next'] += 1
                elif kind == 'done':
                    line = '%s wl_callback@%d.done(7)' % (ts, cbs[-1])
                elif kind == 'delete_id':
                    line = '%s wl_display@1.delete_id(%d)' % (ts, cbs.pop())
                else:
                    line = '%s  -> wl_display@1.get_registry(new id wl_registry@%d)' % (ts, mc['next'])
                    mc['next'] += 1
                _, msg = parse.message(line)
                cm.message(op[1], msg)
                mc['msgs'].append(msg)
                res.evals += 1
                lines = [l for l in out.buffer[n0:].split('\n')[:-1] if session.MSG_LINE.match(l)]
                exp = (sel is None or sel == mc['name']) and not never and flt.matches(msg)
                if exp: shown += 1
                else: hidden += 1
                if len(lines) > 1:
                    res.bad('sink:shown-more-than-once', repr(lines))
                elif bool(lines) != exp:
                    res.bad('sink:shown-but-not-selected' if lines else 'sink:matching-message-not-shown',
                            '%r on connection %s (id %s) %s; selection %r' % (line, mc['name'], op[1], 'shown' if lines else 'not shown', sel))
                elif lines and session.MSG_LINE.match(lines[0]).group(2) != mc['name']:
                    res.bad('sink:shown-under-other-connection', '%r, its connection is %s' % (lines[0], mc['name']))
        # the record: every connection holds exactly its own messages, the global record all of them
        real = list(cm.connections())
        if len(real) == len(allc):
            for c, mc in zip(real, allc):
                if list(c.messages()) != mc['msgs']:
                    res.bad('sink:connection-record', '%s records %d messages, %d arrived on it' % (mc['name'], len(c.messages()), len(mc['msgs'])))
        if len(ctl.all_messages) != sum(len(mc['msgs']) for mc in allc):
            res.bad('sink:record-incomplete', '%d recorded, %d arrived' % (len(ctl.all_messages), sum(len(mc['msgs']) for mc in allc)))
        res.nontrivial = reopen and shown >= 1 and hidden >= 1
        if reopen: res.label('id-reopened')
        res.sample = case['ops'][:16]
        return res


class GdbMode(Stage):
    """the live view in GDB mode: closures delivered through the plugin's breakpoints from several threads, with a filter;
    every message is recorded, exactly the matching ones are shown (kept last: it makes a `gdb` module importable)"""
    name = 'gdb-mode'

    def examples(self, tier):
        return 100 if tier == 'quick' else 14 * 800

    def gen(self, d, tier):
        specs = histgen.history(d, nconn=d.int(1, 2), nmsg=d.int(4, 30), profile=PROFILE, tagged=True)
        g = rm.Gen(d, rm.vocab(specs), 1)
        flt = scripts.gen_matcher_text(d, g) if d.chance(0.5) else None
        V = rm.vocab(specs)
        import re as _re
        strs = [x for x in (V.get('str') or []) if _re.fullmatch(r'[A-Za-z0-9_. \-]+', x)]      # (string atoms without quotes/brackets/parentheses/commas/!: C05's stated grammar)
        via = d.choice([None, None, 'wl filter', 'wlfilter', 'wayland filter', 'wl f', 'wlfilter', 'w filter'])
        if strs and d.chance(0.7 if via == 'wlfilter' else 0.2):
            flt = d.choice(['.("%s")', '("%s")', 'wl_registry.global("%s")', '(interface="%s")']) % d.choice(strs)      # a quoted string argument
        # the filter comes from the command line (-f) or is typed mid-stream as a gdb command, in any of its spellings
        return dict(specs=specs, filter=flt, threads=[d.choice([1, 1, 2, 3]) for _ in range(d.int(1, 6))], via=via, at=d.int(0, max(0, len(specs) // 2)))

    def execute(self, case):
        from .. import gdbsim
        from core import matcher
        res = Result()
        res.evals = 0
        flt = matcher.parse(case['filter']).simplify() if case.get('filter') else matcher.always
        typed = case.get('via') is not None and case.get('filter')
        if typed:
            installed, flt = flt, matcher.always
        drv = gdbsim.Driver(filter_text=None if typed else case.get('filter'))
        try:
            P = histgen.protocols()
            tags, sides = {}, {}
            for k, m in enumerate(case['specs']):
                if typed and k == case.get('at', 0):
                    word, _, sub = case['via'].partition(' ')
                    drv.command((sub + ' ' if sub else '') + case['filter'], via=word)
                    flt = installed
                conn = tags.setdefault(m['conn'], len(tags))
                decl = P[m['iface']].msg(m['name']) if m['iface'] in P and not (m['iface'] == 'wl_registry' and m['name'] == 'bind') else None
                if conn not in sides:
                    ev = decl.is_event if decl is not None else False
                    sides[conn] = 'client' if (m['sent'] != ev) else 'server'
                c = gdbsim.closure_of_message(m, sides[conn], conn, decl)
                c['thread'] = case['threads'][k % len(case['threads'])]
                c['thread_name'] = None if c['thread'] != 1 else 'main'
                n0 = len(drv.out.buffer)
                nrec = len(drv.ctl.all_messages)
                drv.deliver(c)
                res.evals += 1
                if len(drv.ctl.all_messages) != nrec + 1:
                    res.bad('gdb:message-not-recorded', 'closure %d (%s.%s on thread %d) was not recorded; err=%r' % (k, m['iface'], m['name'], c['thread'], drv.err.buffer[-200:]))
                    continue
                msg = drv.ctl.all_messages[-1]
                shown = [l for l in drv.out.buffer[n0:].split('\n')[:-1] if session.MSG_LINE.match(l)]
                exp = flt.matches(msg)
                if len(shown) > 1 or bool(shown) != exp:
                    res.bad('gdb:shown-but-filtered-out' if shown else 'gdb:matching-message-not-shown', '%s %s; filter %r' % (str(msg), 'shown' if shown else 'not shown', case.get('filter')))
            per = {}
            for m in drv.ctl.all_messages:
                if m.obj.connection is not None:
                    per.setdefault(m.obj.connection.name(), []).append(m)
            for c in drv.cm.connections():
                own = [m for m in c.messages() if m.obj.connection is not None]
                if own != per.get(c.name(), []):
                    res.bad('gdb:connection-record-differs', c.name())
        finally:
            drv.close()
        res.nontrivial = len(set(case['threads'])) > 1 and len(case['specs']) >= 5
        res.label('gdb-mode')
        if typed: res.label('filter-typed-as-' + case['via'].split(' ')[0])
        res.sample = dict(filter=case.get('filter'), via=case.get('via'), threads=case['threads'], lines=[wire.render(m, 'new') for m in case['specs'][:6]])
        return res


class C06(Prop):
    id = 'C06'
    rule = ('a generated multi-connection history streams through the real pipeline from a scripted reader; between lines the script issues '
            'filter replacements (`filter !` + `filter <generated matcher>`), connection selections, listings, breakpoints and unknown commands; '
            'for every input line exactly one message line is expected iff the selection admits its connection and the current filter '
            '(independently parsed) matches; afterwards the record (all_messages, Connection.messages(), `list *`) must hold every message in '
            'arrival order. sink-sessions: the same on the connection-id interface with connections closed and their ids re-used. non-trivial = >= 1 filter change and >= 1 selection change mid-stream with >= 1 message shown and >= 1 hidden; '
            'distinct by SHA-1 of the case.')
    assumptions = ['matcher meaning is C05\'s business: expectations use an independently parsed copy of the same matcher text',
                   'filters are replaced via `filter !` then `filter <m>` (accumulation is C12\'s business)']
    stages = [Sessions(), CrossTalk(), SinkSessions(), GdbMode()]


PROP = C06()
