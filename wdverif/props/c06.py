"""C06 - the live view shows exactly the messages matching the current filter."""
from .. import env, histgen, session, wire, scripts, refmatch as rm
from ..runner import Prop, Stage, Result

PROFILE = dict(reuse=0.6, weights=dict(newer=4, delete=12, bind=12, message=52, server_event=8, sync=6, enum=10, title=8))


def evaluate(case, res):
    s, segs = scripts.run_script(case, res)
    w = scripts.Walker(s, res, case.get('initial_filter'))
    for seg in segs:
        if seg.kind == 'line':
            m, exp, shown = w.on_line(seg)
            if m is None:
                continue
            res.evals += 1
            if exp:
                w.changes['shown'] += 1
            else:
                w.changes['hidden'] += 1
            if len(shown) > 1:
                res.bad('shown-more-than-once', '%r shown %d times: %r' % (seg.text, len(shown), shown))
            elif bool(shown) != exp:
                res.bad('shown-but-filtered-out' if shown else 'matching-message-not-shown',
                        '%r %s; filter %r, selection %r' % (seg.text, 'shown' if shown else 'not shown', w.filter_text, w.sel))
            elif shown and shown != session.render_shown([m]):
                res.bad('shown-line-is-not-the-message', '%r, the message renders as %r' % (shown, session.render_shown([m])))
        elif seg.kind == 'cmd':
            before = len(s.ctl.all_messages)
            k = w.on_cmd_state(seg.text)
            if [l for l in seg.out_lines() if session.MSG_LINE.match(l)] and not k.startswith('list'):
                res.bad('command-prints-message-lines', '%r printed %r' % (seg.text, seg.out_lines()[:3]))
    # everything is recorded, shown or not, in arrival order
    nlines = sum(1 for i in case['items'] if i[0] == 'line')
    if len(s.ctl.all_messages) != nlines:
        res.bad('record-incomplete', '%d recorded, %d arrived' % (len(s.ctl.all_messages), nlines))
    per_conn = {}
    for m in s.ctl.all_messages:
        per_conn.setdefault(w.conn_of.get(id(m)), []).append(m)
    for c in s.cm.connections():
        if list(c.messages()) != per_conn.get(c.name(), []):
            res.bad('connection-record-differs', 'Connection.messages() of %s is not its messages in arrival order' % c.name())
    n0 = len(s.out.buffer)
    s.ctl.process_command('connection all')
    n1 = len(s.out.buffer)
    s.ctl.process_command('list *')
    listed = [l for l in s.out.buffer[n1:].split('\n')[:-1] if session.MSG_LINE.match(l)]
    if listed != session.render_shown(s.ctl.all_messages):
        res.bad('list-star-is-not-the-record', '%d listed, %d recorded' % (len(listed), len(s.ctl.all_messages)))
    if len(listed) != nlines:
        res.bad('list-star-incomplete', '%d listed, %d arrived' % (len(listed), nlines))
    return w


class Sessions(Stage):
    name = 'sessions'

    def examples(self, tier):
        return 300 if tier == 'quick' else 14 * 2500

    def gen(self, d, tier):
        specs = histgen.history(d, nconn=d.int(1, 3), nmsg=d.int(4, 40), profile=PROFILE, tagged=True)
        dialect = 'new'
        initial = None
        if d.chance(0.4):
            g = rm.Gen(d, rm.vocab(specs), 1)
            initial = scripts.gen_matcher_text(d, g)
        return dict(dialect=dialect, specs=specs, initial_filter=initial, items=scripts.gen_script(d, specs, dialect))

    def execute(self, case):
        res = Result()
        res.evals = 0
        w = evaluate(case, res)
        c = w.changes
        res.nontrivial = c['filter'] >= 1 and c['selection'] >= 1 and c['shown'] >= 1 and c['hidden'] >= 1
        for k in ('filter', 'selection'):
            if c[k]: res.label(k + '-changed-mid-stream')
        if case.get('initial_filter'): res.label('initial -f filter')
        if c['shown'] and c['hidden']: res.label('some-shown-some-hidden')
        if len({m['conn'] for m in case['specs']}) > 1: res.label('multi-connection')
        res.count('messages-shown', c['shown'])
        res.count('messages-hidden', c['hidden'])
        res.sample = dict(initial_filter=case.get('initial_filter'), items=[i[1] if i[0] == 'line' else '$ ' + i[1] for i in case['items'][:14]])
        return res


class C06(Prop):
    id = 'C06'
    rule = ('a generated multi-connection history streams through the real pipeline from a scripted reader; between lines the script issues '
            'filter replacements (`filter !` + `filter <generated matcher>`), connection selections, listings, breakpoints and unknown commands; '
            'for every input line exactly one message line is expected iff the selection admits its connection and the current filter '
            '(independently parsed) matches; afterwards the record (all_messages, Connection.messages(), `list *`) must hold every message in '
            'arrival order. non-trivial = >= 1 filter change and >= 1 selection change mid-stream with >= 1 message shown and >= 1 hidden; '
            'distinct by SHA-1 of the case.')
    assumptions = ['matcher meaning is C05\'s business: expectations use an independently parsed copy of the same matcher text',
                   'filters are replaced via `filter !` then `filter <m>` (accumulation is C12\'s business)']
    stages = [Sessions()]


PROP = C06()
