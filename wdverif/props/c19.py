"""C19 - everything after -r/-g is forwarded verbatim; everything before is ours."""
import os, io, sys, json, string, contextlib
from .. import env, cli
from ..runner import Prop, Stage, Result

FLAGS = ['-C', '-p', '--color', '--supress', '--verbose', '--no-color', '--pipe']
VAL = ['-f', '-b', '-l', '--libwayland', '--filter', '--break', '--load']
CANON = {'--filter': '-f', '--break': '-b', '--load': '-l'}
MATCHERS = ['wl_surface', 'wl_pointer.[motion, axis]', '! .frame', '*', '!', '5b', 'xdg_* ! xdg_popup, .get_popup', '(x=0, y=0)', 'B: .commit', '.(nil)',
            ' wl_surface ', 'a, b ! c']
BADMATCHERS = ['(', '[', 'a.b.c', 'x ! y ! z', '', ' ', 'wl_a@5', '"', '\t', '   ', ' \t ']
# malformed by the documented grammar whatever the tool's parser says: unbalanced brackets / quote, two dots, two `!`, nothing at all
SURELY_BAD = {'(', '[', 'a.b.c', 'x ! y ! z', '', ' ', '"', '\t', '   ', ' \t '}
VALUES = ['x y', 'a"b', 'c\\d', "it's", 'a\\nb', 'back\\\\slash', '\\', '"', "'", '""', 'tab\\t', '/tmp', 'file.log', 'r', 'g', 'run', 'gdb', '$HOME', '`x`', 'a;b', 'ü', '%s', '{0}',
          'main.py', 'x=1', 'a,b', '\U0001F600 term', 'caf\u00e9 \u4e2d\u6587', '\U00020000']      # (also characters outside the Basic Multilingual Plane)
MARK = ['-r', '--run', '-g', '--gdb']
AFTER = ['prog', './a.out', '--verbose', '--color', '-f', 'x', '-r', '--gdb', '-g', '--run', 'a b', '', '-Cr', '--', '-l', '-h', '--help', '"q"', '\\', '-ex', 'run', '--args', '-p', '--pipe',
         'c\\d', "it's", '-b', '!', '--supress', '-C', '$X', '*', 'a"b',
         '-rt', '-rf', '-ggdb', '-Wgnu', '-lrt', '-rg', '-gr', '-grx', '-prC']      # the program's own clustered options (ls -rt, rm -rf, cc -ggdb)
PRINTABLE = ''.join(c for c in string.printable if c not in '\n\r\t\x0b\x0c')


def gen_value(d, opt):
    o = CANON.get(opt, opt)
    if o in ('-f', '-b'):
        k = d.int(0, 9)
        if k <= 5: return d.choice(MATCHERS)
        if k <= 7: return d.choice(BADMATCHERS)
        return d.choice(VALUES)
    if d.chance(0.7):
        return d.choice(VALUES)
    v = d.text(PRINTABLE, 0, 10)
    return v if not v.startswith('-') else 'v' + v


def gen_vector(d, force_marker=None):
    words = []
    for _ in range(d.int(0, 4)):
        k = d.int(0, 9)
        if k <= 3:
            words.append(d.choice(FLAGS))
        elif k == 4:
            words.append('-' + ''.join(d.perm('Cp')[:d.int(1, 2)]))
        else:
            o = d.choice(VAL)
            words += [o, gen_value(d, o)]
    if d.chance(0.15):
        words += [d.choice(['--libwayland', '-f']), d.choice(['\U0001F600 lib', 'x\U00020000y', 'wl_\U0001F600'])]      # outside the Basic Multilingual Plane
    has_marker = d.chance(0.8) if force_marker is None else True
    if has_marker:
        if force_marker is not None:
            pool = ['-r', '--run'] if force_marker == 'r' else ['-g', '--gdb']
            letter = force_marker
        else:
            pool = MARK
            letter = d.choice('rg')
        m = d.choice(pool) if d.chance(0.75) else '-' + ''.join(d.perm('Cp')[:d.int(1, 2)]) + letter
        if d.chance(0.08):
            # a cluster with a mode letter that is not its last letter (-rg, -gCr, -Crg): refused whichever letter comes last
            inner = d.perm('Cp')[:d.int(0, 2)]
            inner.insert(d.int(0, len(inner)), d.choice('rg'))
            m = '-' + ''.join(inner) + letter
        words.append(m)
        for _ in range(d.int(0, 6)):
            words.append(d.choice(AFTER) if d.chance(0.8) else d.text(PRINTABLE, 0, 8))
    return words


def ref_split(words):
    """own reference splitter: left-to-right, first marker wins, cluster remainder kept.
    returns (left, marker letter or '', right) or 'error' for a marker letter in the middle of a cluster"""
    for i, w in enumerate(words):
        if w in ('-r', '--run'): return words[:i], 'r', words[i + 1:]
        if w in ('-g', '--gdb'): return words[:i], 'g', words[i + 1:]
        if len(w) > 2 and w[0] == '-' and w[1] != '-':
            if 'g' in w[1:-1] or 'r' in w[1:-1]:
                return 'error'
            if w[-1] in 'rg':
                return words[:i] + [w[:-1]], w[-1], words[i + 1:]
    return words, '', []


def marker_word(words):
    for w in words:
        if w in MARK or (len(w) > 2 and w[0] == '-' and w[1] != '-' and w[-1] in 'rg'):
            return w
    return None


def interpret(left):
    """what the words before the marker ask for: (ok, values, flags)"""
    vals, flags = {}, set()
    i = 0
    while i < len(left):
        w = left[i]
        if w in VAL:
            if i + 1 >= len(left) or left[i + 1].startswith('-'):
                return False, vals, flags
            vals[CANON.get(w, w)] = left[i + 1]
            i += 2
        elif w.startswith('--'):
            flags.add(w)
            i += 1
        elif w.startswith('-') and len(w) > 1:
            for c in w[1:]:
                flags.add('-' + c)
            i += 1
        else:
            return False, vals, flags       # a stray positional word: argparse rejects it
    return True, vals, flags


def call_parse_args(argv):
    from frontends.tui.arguments import parse_args
    so, se = io.StringIO(), io.StringIO()
    try:
        with contextlib.redirect_stdout(so), contextlib.redirect_stderr(se):
            a = parse_args(argv)
        return ('ok', a, so.getvalue(), se.getvalue())
    except SystemExit as e:
        return ('exit', e.code, so.getvalue(), se.getvalue())
    except RuntimeError as e:
        return ('error', str(e), so.getvalue(), se.getvalue())


def probe_msgs():
    from core import wl
    from core.wl.message import MockMessage
    from core.wl.object import MockObject
    return [MockMessage(obj=MockObject(type=t, id=i), name=n) for t, i, n in
            (('wl_surface', 5, 'commit'), ('wl_pointer', 7, 'motion'), ('xdg_popup', 9, 'frame'), ('wl_display', 1, 'delete_id'), ('b', 2, 'x'))]


def check_split(words, res, argv0='main.py'):
    """compare parse_args with the reference; returns the Arguments object or None"""
    from core import matcher
    from core.util import no_color
    r = call_parse_args([argv0] + words)
    ref = ref_split(words)
    if ref == 'error':
        if r[0] == 'ok':
            res.bad('marker-inside-cluster-accepted', '%r accepted' % words)
        return None
    left, mk, right = ref
    ok, vals, flags = interpret(left)
    if not ok or '-h' in flags or '--help' in flags:
        if r[0] == 'ok':
            res.bad('unusable-options-accepted', '%r -> mode %s' % (words, r[1].mode))
        return None
    modes = []
    if mk == 'g': modes.append('gdb-runner')
    if mk == 'r': modes.append('run')
    if '-l' in vals: modes.append('load-from-file')
    if '-p' in flags or '--pipe' in flags: modes.append('pipe')
    if len(modes) != 1:
        if r[0] != 'exit':
            res.bad('not-exactly-one-mode-but-no-usage-exit', '%r (modes %r) -> %s' % (words, modes, r[0]))
        elif 'usage:' not in (r[2] + r[3]):
            res.bad('usage-not-printed', '%r' % words)
        return None
    bad = None
    for key in ('-f', '-b'):
        if key in vals:
            try:
                matcher.parse(vals[key])
            except RuntimeError:
                bad = key
            if vals[key] in SURELY_BAD:
                bad = key
    if bad:
        if r[0] == 'ok':
            res.bad('malformed-matcher-ignored:%s:%s' % (bad, 'empty' if vals[bad].strip() == '' else 'text'), '%r: %s value %r was not reported' % (words, bad, vals[bad]))
        elif r[0] != 'error':
            res.bad('malformed-matcher-exit-instead-of-error', '%r -> %r' % (words, r[:2]))
        return None
    if r[0] != 'ok':
        res.bad('valid-vector-rejected:' + r[0], '%r -> %r %s' % (words, r[1], (r[3] or r[2])[-200:]))
        return None
    a = r[1]
    if a.mode.value != modes[0]:
        res.bad('mode', '%r -> %s, expected %s' % (words, a.mode.value, modes[0]))
    if a.wayland_debug_args != [argv0] + left:
        res.bad('words-before-marker', '%r -> ours %r, expected %r' % (words, a.wayland_debug_args, [argv0] + left))
    if a.command_args != right:
        res.bad('words-after-marker', '%r -> forwarded %r, expected %r' % (words, a.command_args, right))
    msgs = probe_msgs()
    for key, got, default in (('-f', a.filter_matcher, matcher.always), ('-b', a.stop_matcher, matcher.never)):
        exp = matcher.parse(vals[key]).simplify() if key in vals else default
        if no_color(str(got)) != no_color(str(exp)) or [got.matches(m) for m in msgs] != [exp.matches(m) for m in msgs]:
            res.bad('option-matcher:' + key, '%r -> %s, expected %s' % (words, no_color(str(got)), no_color(str(exp))))
    if a.load_path != vals.get('-l', ''):
        res.bad('load-path', '%r -> %r' % (words, a.load_path))
    if a.show_unprocessed_output != ('--supress' not in flags):
        res.bad('supress-flag', repr(words))
    return a


def classify(words, res):
    ref = ref_split(words)
    if ref == 'error':
        res.label('marker-inside-cluster')
        return False
    left, mk, right = ref
    ok, vals, flags = interpret(left)
    if mk: res.label('marker:' + ('plain' if marker_word(words) in MARK else 'cluster'))
    else: res.label('no-marker')
    look = any(w.startswith('-') for w in right)
    if look: res.label('option-lookalike-after-marker')
    if any(w in MARK for w in right): res.label('further-marker-after')
    if vals: res.label('valued-option-before')
    return bool(mk) and bool(vals) and look


class Split(Stage):
    name = 'split'

    def examples(self, tier):
        return 2500 if tier == 'quick' else 14 * 20000

    def gen(self, d, tier):
        return gen_vector(d)

    def execute(self, words):
        env.reset_globals(protocols=False)
        res = Result()
        check_split(words, res)
        res.nontrivial = classify(words, res)
        res.sample = words
        return res


class GdbShim(Stage):
    """-g path with a shim first on PATH: gdb's own argv, and sys.argv as evaluated by the real gdb's python"""
    name = 'gdb-shim'

    def examples(self, tier):
        return 48 if tier == 'quick' else 14 * 150

    def gen(self, d, tier):
        for _ in range(20):
            words = gen_vector(d, force_marker='g')
            # values that must survive the trip into gdb's python: quotes, backslashes, blanks, shell-ish text
            pre = []
            for _ in range(d.int(0, 2)):
                if d.chance(0.6):
                    pre += ['--libwayland', d.choice(VALUES) if d.chance(0.8) else (d.text(PRINTABLE, 0, 10).lstrip('-') or 'v')]
                else:
                    pre += [d.choice(['-f', '-b', '--filter']), '("%s")' % d.choice(['a b', 'c\\d', "it's", 'a\\nb', '\\', 'x', '$HOME', 'tab\\t'])]
            words = pre + words
            ref = ref_split(words)
            if ref == 'error':
                continue
            left, mk, right = ref
            ok, vals, flags = interpret(left)
            if ok and mk == 'g' and '-l' not in vals and '-p' not in flags and '--pipe' not in flags and '-h' not in flags:
                for key in ('-f', '-b'):
                    if key in vals and vals[key] in BADMATCHERS:
                        vals[key] = None
                if None not in vals.values():
                    return words
        return ['-C', '-g', 'prog']

    def execute(self, words):
        from backends.gdb_plugin import runner as gdb_runner
        env.reset_globals(protocols=False)
        res = Result()
        gdb = cli.real_gdb()
        if gdb is None:
            res.label('no-gdb')
            return res
        with cli.Scratch() as sc:
            probe = sc.write('probe.py', cli.PROBE)
            a = check_split(words, res, argv0=probe)
            if a is None or res.discs:
                return res
            os.mkdir(sc.path('bin'))
            sc.write('bin/gdb', cli.GDB_SHIM % dict(py=cli.PY, gdb=gdb), exe=True)
            rec, pout = sc.path('gdb-record.json'), sc.path('probe-out.json')
            saved = dict(os.environ)
            os.environ.update(PATH=sc.path('bin') + os.pathsep + os.environ.get('PATH', ''), WDV_GDB_RECORD=rec, WDV_PROBE_OUT=pout)
            so = io.StringIO()
            try:
                with contextlib.redirect_stdout(so), contextlib.redirect_stderr(so):
                    gdb_runner.run_gdb(a, True)
            finally:
                os.environ.clear()
                os.environ.update(saved)
            left, mk, right = ref_split(words)
            if not os.path.exists(rec):
                res.bad('gdb-not-started', '%r: %s' % (words, so.getvalue()[-300:]))
                return res
            r = json.load(open(rec))
            gargv = r['argv']
            if gargv[len(gargv) - len(right):] != right or len(gargv) != len(right) + 2:
                res.bad('gdb-argv', '%r: gdb started with %r, forwarded words are %r' % (words, gargv, right))
            if not os.path.exists(pout):
                gout = open(rec + '.gdbout', 'rb').read().decode('utf-8', 'replace') if os.path.exists(rec + '.gdbout') else ''
                res.bad('inner-instance-not-started', '%r: the python command gdb was given failed: %s' % (words, gout[-300:]))
                return res
            seen = [''.join(chr(c) for c in w) for w in json.load(open(pout))]
            if seen != [probe] + left:
                res.bad('inner-sys-argv', '%r: instance inside gdb sees %r, expected %r' % (words, seen[1:], left))
        res.nontrivial = classify(words, res)
        if any(('\\' in w or '"' in w or "'" in w) for w in ref_split(words)[0]): res.label('quote-or-backslash-before-marker')
        res.sample = words
        return res


class RunChild(Stage):
    """-r path: the started program reports the argv it received"""
    name = 'run-child'

    def examples(self, tier):
        return 36 if tier == 'quick' else 14 * 60

    def gen(self, d, tier):
        n = d.int(0, 6)
        if d.chance(0.3):
            # the program is a single word (an executable whose path contains a blank, a quote, a backslash...) followed by 0-2 words
            return dict(exe=d.choice(['child prog', "child's", 'a "b" c', 'back\\slash', 'plain', 'tab\there', 'x y z', '$HOME', 'a;b']),
                        after=[d.choice(AFTER) for _ in range(d.choice([0, 0, 0, 1, 2]))])
        if d.chance(0.15):
            # a program found through PATH by its bare name reports the name it was started under (argv[0], `$0`)
            return dict(argv0=d.choice(['sh', 'dash', 'bash', 'sh']), after=[d.choice(AFTER) for _ in range(d.int(0, 2))])
        words = [d.choice(AFTER) if d.chance(0.8) else d.text(PRINTABLE, 0, 8) for _ in range(n)]
        if d.chance(0.5):
            # one of wayland-debug's own option spellings among the program's words: forwarded, never acted upon
            words.insert(d.int(0, len(words)), d.choice(['--verbose', '--verbose', '--verbose', '--color', '--color', '--supress', '-C', '-p', '--matcher-help', '-h', '--help', '-f', '-b']))
        return words

    def execute(self, after):
        res = Result()
        exe = None
        if isinstance(after, dict) and 'argv0' in after:
            import shutil
            name, extra = after['argv0'], after['after']
            if shutil.which(name) is None:
                res.label('shell-not-installed(skipped)')
                return res
            with cli.Scratch() as sc:
                outp = sc.path('argv0.txt')
                rc, out, err = cli.run_main(['-C', '-r', name, '-c', 'cat /proc/$$/cmdline > "$WDV_ARGV0_OUT"', 'zero'] + extra,
                                            stdin=b'q\n', extra_env=dict(WDV_ARGV0_OUT=outp), timeout=30)
                if rc is None or b'Failed to join subprocess thread' in err:
                    res.label('timeout(inconclusive)')
                    return res
                got = open(outp, 'rb').read().split(b'\0') if os.path.exists(outp) else None
            # the kernel's record of how the program was started: every word as given, the first one included
            want = [name.encode(), b'-c', b'cat /proc/$$/cmdline > "$WDV_ARGV0_OUT"', b'zero'] + [w.encode() for w in extra]
            if got is None or got[:len(want)] != want:
                res.bad('program-argv0', 'started as %r, the program\'s own command line reads %r' % ([name, '-c', '...', 'zero'] + extra, got and got[:len(want)]))
            res.nontrivial = True
            res.label('program-by-bare-name')
            res.sample = after
            return res
        if isinstance(after, dict):
            exe, after = after['exe'], after['after']
        with cli.Scratch() as sc:
            child = sc.write('child.py', cli.CHILD)
            report = sc.path('report.json')
            spec = sc.write('spec.json', json.dumps(dict(report=report, chunks=[], exit=0)))
            if exe is not None:
                prog = sc.write(exe, '#!' + cli.PY + '\n' + cli.CHILD, exe=True)
                command = [prog]
                res.label('program-is-one-word' + ('-alone' if not after else ''))
                # decoys: should the word be split or unquoted on its way, the program that starts instead reports too
                import shlex
                for variant in (exe.split(), exe.replace('\\', '').split(), exe.replace('"', '').replace("'", '').split()):
                    if variant and variant[0] != exe and not os.path.exists(sc.path(variant[0])):
                        sc.write(variant[0], '#!' + cli.PY + '\n' + cli.CHILD, exe=True)
            else:
                command = [cli.PY, child]
            rc, out, err = cli.run_main(['-C', '-r'] + command + after, stdin=b'q\n', extra_env=dict(WDV_CHILD_SPEC=spec), timeout=30)
            if rc is None and exe is not None and not os.path.exists(report):
                # no sign of the program after 30 s. Slowness or a hang? A control run (a plain one-word program, same
                # conditions) and a second, longer attempt decide: only "control starts, this one never does" counts
                creport = sc.path('creport.json')
                cspec = sc.write('cspec.json', json.dumps(dict(report=creport, chunks=[], exit=0)))
                cprog = sc.write('plaincontrol', '#!' + cli.PY + '\n' + cli.CHILD, exe=True)
                crc, _, _ = cli.run_main(['-C', '-r', cprog] + after, stdin=b'q\n', extra_env=dict(WDV_CHILD_SPEC=cspec), timeout=30)
                rc2, _, err2 = cli.run_main(['-C', '-r'] + command + after, stdin=b'q\n', extra_env=dict(WDV_CHILD_SPEC=spec), timeout=90)
                if crc is not None and os.path.exists(creport) and not os.path.exists(report):
                    res.bad('program-not-started:one-word-program', 'program %r never started (twice, 30 s and 90 s) while a plain one-word program started at once; stderr %r' % (exe, (err2 or b'')[-300:]))
                    return res
            if rc is None or b'Failed to join subprocess thread' in err:
                res.label('timeout(inconclusive)')
                return res
            if not os.path.exists(report):
                res.bad('program-not-started', '%r: rc=%r err=%r' % (after, rc, err[-300:]))
                return res
            rep = json.load(open(report))
            if rep['argv'] != after:
                res.bad('program-argv', 'started with %r, expected %r' % (rep['argv'], after))
            if rep['wayland_debug'] != '1':
                res.bad('wayland-debug-env', repr(rep['wayland_debug']))
            # words after the marker are the program's: wayland-debug must not act on them (e.g. turn verbose / coloured)
            if b'INFO:' in err or b'DEBUG:' in err:
                res.bad('forwarded-word-interpreted:verbose', '%r: wayland-debug logs at INFO/DEBUG level: %r' % (after, err[:200]))
            if b'\x1b[' in out:
                res.bad('forwarded-word-interpreted:color', '%r: coloured output although -C was given before the marker' % (after,))
        res.nontrivial = any(w.startswith('-') for w in after)
        res.sample = after
        return res


class GdbInnerOptions(Stage):
    """the options before -g are *interpreted* by the instance inside GDB: the real gdb is started in batch mode through main.py and
    asked `wl help filter`, `wl filter`, `wl breakpoint`: colour follows -C / --no-color / --color (on by default inside gdb), the filter
    and breakpoint matchers are the ones given with -f / -b"""
    name = 'gdb-inner-options'

    def examples(self, tier):
        return 8 if tier == 'quick' else 14 * 10

    def gen(self, d, tier):
        colour = d.choice([[], ['-C'], ['--no-color'], ['--color'], ['-C', '--color'], 'cluster'])
        f = d.choice([None, 'wl_pointer ! .motion', 'xdg_toplevel', '.commit, .frame'])
        b = d.choice([None, None, 'wl_display.sync', '! .frame'])
        return dict(colour=colour, f=f, b=b, marker=d.choice(['-g', '--gdb']), order=d.int(0, 1))

    def execute(self, case):
        res = Result()
        res.evals = 1
        if cli.real_gdb() is None:
            res.label('no-gdb(inconclusive)')
            return res
        opts = []
        if case['f']: opts += ['-f', case['f']]
        if case['b']: opts += ['-b', case['b']]
        marker = [case['marker']]
        if case['colour'] == 'cluster':
            marker = ['-Cg']
        elif case['order']:
            opts = opts + list(case['colour'])
        else:
            opts = list(case['colour']) + opts
        rc, out, err = cli.run_main(opts + marker + ['-batch', '-nx', '-ex', 'wl help filter', '-ex', 'wl filter', '-ex', 'wl breakpoint'], stdin=b'', timeout=60)
        if rc is None:
            res.label('timeout(inconclusive)')
            return res
        text = (out + err).decode('utf-8', 'replace')
        if 'Show the current output filter matcher' not in text:
            res.label('plugin-did-not-answer(inconclusive)')
            res.count('inconclusive-runs')
            return res
        inner = text[text.index('Show the current output filter matcher') - 40:]
        no_colour = case['colour'] == 'cluster' or '-C' in case['colour'] or '--no-color' in case['colour']
        has = '\x1b[' in inner
        if has == no_colour:
            res.bad('inner-instance-colour', 'started with %r: the instance inside gdb answers %s colour: %r' % (opts + marker, 'with' if has else 'without', inner[:120]))
        from core import matcher
        from core.util import no_color
        plain = no_color(inner)
        for key, label, default in (('f', 'Output filter: ', '*'), ('b', 'Breakpoint matcher: ', '!')):
            want = no_color(str(matcher.parse(case[key]).simplify())) if case[key] else default
            got = [l[len(label):] for l in plain.split('\n') if l.startswith(label)]
            if got != [want]:
                res.bad('inner-instance-matcher:' + key, 'started with %r: `wl %s` inside gdb says %r, expected %r' % (opts + marker, 'filter' if key == 'f' else 'breakpoint', got, want))
        res.nontrivial = bool(case['colour']) or bool(case['f'])
        res.label('colour-option:' + ('cluster' if case['colour'] == 'cluster' else '+'.join(case['colour']) or 'none'))
        res.sample = dict(argv=opts + marker)
        return res


class C19(Prop):
    id = 'C19'
    rule = ('split: argument vectors = prefix of wayland-debug options (flags, clusters of single-letter flags, valued options with separate '
            'values incl. quotes/backslashes/blanks/empty), optional marker in any spelling (-r --run -g --gdb or last letter of a cluster) '
            'and following words incl. further markers and option look-alikes; parse_args vs an own left-to-right splitter (ours / forwarded / '
            'mode / exactly-one-mode-or-usage / -f -b matchers / malformed reported). gdb-shim: run_gdb with a recording shim first on PATH '
            'and the real gdb evaluating the python command: gdb argv ends with the forwarded words, inner sys.argv = words before the '
            'marker. run-child: the started program reports its argv. non-trivial = marker present with >= 1 valued option before and >= 1 '
            'option look-alike after; distinct by SHA-1 of the vector. gdb-inner-options: the real gdb in batch mode through main.py answers `wl help filter`, `wl filter`, `wl breakpoint`: colour follows -C / --no-color / --color / the cluster -Cg, the matchers are the ones given with -f / -b.')
    assumptions = ['option values are separate words not starting with "-" (attached values such as -fVALUE are outside the statement)',
                   'clusters are made of single-letter flags (C, p) with the marker letter last']
    stages = [Split(), GdbShim(), GdbInnerOptions(), RunChild()]


PROP = C19()
