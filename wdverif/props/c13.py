"""C13 - file, pipe and run modes show the same thing; run mode is transparent."""
import os, json
from .. import env, cli, histgen, wire
from ..runner import Prop, Stage, Result
from .c08 import gen_chatter

PROFILE = dict(reuse=0.6, weights=dict(repeat=4, newer=4, delete=14, bind=12, message=48, server_event=8, sync=6, enum=8, title=6))
PROMPT = b'wl debug $ '
MARKER = 'WDV-CHILD-STDOUT-MARKER %d\n'
ARGS = ['-f', '-r', '--gdb', '-g', '-l', 'x', '', ' ', 'a b', '"q"', "it's", '\\', '--run', '-p', '-C', '--', '-h', '*', '$HOME', 'é', '-b', '!', '--supress',
        '--matcher-help', '--help', '--verbose', '--color', '--libwayland', '--no-color']


def gen_chunks(d, data):
    n = len(data)
    cuts = sorted({d.int(0, n) for _ in range(d.int(0, 8))}) if n else []
    if d.chance(0.2):
        cuts = list(range(0, n, d.choice([1, 2, 3, 7])))[:300]
    pts = [0] + [c for c in cuts if 0 < c < n] + [n]
    chunks = []
    for a, b in zip(pts, pts[1:]):
        if b > a:
            chunks.append([list(data[a:b]), d.choice([0, 0, 0.001, 0.005])])
    return chunks


class Modes(Stage):
    name = 'modes'

    def examples(self, tier):
        return 80 if tier == 'quick' else 14 * 110

    def gen(self, d, tier):
        dialect = d.choice(['new', 'old'])
        specs = histgen.history(d, nconn=d.int(1, 2), nmsg=d.int(2, 14), profile=PROFILE)
        lines = []
        for m in specs:
            while d.chance(0.3):
                c = gen_chatter(d)
                if d.chance(0.3):
                    c += d.choice([' ünïcödé', ' 日本語', ' €', ' →'])
                if d.chance(0.15):
                    c = 'progress 10%\rprogress 50%\r' + c      # programs redraw a line with a bare carriage return
                if d.chance(0.1):
                    c = c + ' bad byte \ue000 here'      # placeholder for a byte that is not valid UTF-8 (put in after encoding)
                if d.chance(0.12):
                    # characters that str.splitlines() treats as line ends but a text stream does not
                    c = c + d.choice(['\x0c', '\x0b', '\x1c', '\x1d', '\x1e', '\x85', '\u2028', '\u2029']) + 'tail'
                lines.append(c[:300])
                if d.chance(0.2):
                    lines.append(c[:300])      # the same line twice in a row
            lines.append(wire.render(m, dialect))
        while d.chance(0.3):
            lines.append(gen_chatter(d)[:300])
        if d.chance(0.12):
            # the capture was saved by an editor / a Windows shell: a byte order mark in front of the program's first line of output
            lines.insert(0, '\ufeff' + d.choice(['starting up', 'log opened', 'Gtk-Message: hello']))
        final_newline = d.chance(0.7) or lines[-1].strip() == ''
        text = '\n'.join(lines) + ('\n' if final_newline else '')
        data = text.encode('utf-8').replace('\ue000'.encode('utf-8'), b'\xff')
        return dict(text=text, chunks=[gen_chunks(d, data), gen_chunks(d, data)], exit=d.choice([0, 0, 1, 2, 7, 99, 127, 255, d.int(0, 255)]),
                    argv=[d.choice(ARGS) for _ in range(d.int(0, 5))] + ([d.choice(['--matcher-help', '--help', '-h', '--verbose', '-g'])] if d.chance(0.2) else []), marker=d.int(0, 9999), supress=d.chance(0.2), filter=d.choice([None, None, 'wl_display', '* ! .bind']),
                    linger=d.choice([0, 0, 0, 0, 0, 0, 0, 1.3]), libwayland=d.chance(0.2), no_stdin=d.chance(0.3), slow_pipe=d.choice([None, None, None, None, None, None, [1.4, 0.0], [0.0, 1.2], [1.3, 0.3]]), nmsg=len(specs), hashseeds=[d.int(0, 4000) for _ in range(4)], exe=d.choice([None, None, None, 'child prog', 'a "b" c', 'back\\slash', 'x y z']), brk=d.choice([None, None, None, '.sync', 'wl_registry, wl_display', '*', 'wl_display ! .sync', '.bind']), parent_wayland_debug=d.choice([None, None, '1', 'client', 'server', '0', '']),
                    file_via=d.choice([None, None, 'fifo', 'dev-stdin']),      # file mode given something that is not a regular file
                    via_shell=d.choice([None, None, None, 'sh', 'sh', 'dash', 'bash']))      # the program is named the usual way: a bare name found through PATH

    def execute(self, case):
        res = Result()
        res.evals = 0
        data = case['text'].encode('utf-8').replace('\ue000'.encode('utf-8'), b'\xff')
        opts = ['-C']
        if case.get('supress'): opts.append('--supress')
        if case.get('filter'): opts += ['-f', case['filter']]
        if case.get('brk'): opts += ['-b', case['brk']]      # `Stopped at` lines are part of the display in every mode
        with cli.Scratch() as sc:
            log = sc.write('stream.log', data, 'wb')
            child = sc.write('child.py', cli.CHILD)
            command = [cli.PY, child]
            if case.get('exe') and not case['argv']:
                # the program is one word, an executable whose path has blanks / quotes / a backslash in it; decoys with the
                # names a split or unquoted version of that word would start report as well
                command = [sc.write(case['exe'], '#!' + cli.PY + '\n' + cli.CHILD, exe=True)]
                for variant in (case['exe'].split(), case['exe'].replace('\\', '').split(), case['exe'].replace('"', '').split()):
                    if variant and variant[0] != case['exe'] and not os.path.exists(sc.path(variant[0])):
                        sc.write(variant[0], '#!' + cli.PY + '\n' + cli.CHILD, exe=True)
            SH_SCRIPT = 'cat /proc/$$/cmdline > "$WDV_ARGV0_OUT"; exec "$WDV_PY" "$WDV_CHILD" "$@"'
            via_shell = case.get('via_shell') if command == [cli.PY, child] else None
            if via_shell:
                # a shell found through PATH notes the command line it was started with, then becomes the reporting program
                command = [via_shell, '-c', SH_SCRIPT, 'zero']
            # every run is a process of its own: Python's string hashing differs from process to process (PYTHONHASHSEED is random
            # unless set), which must not show in the display
            hs = [dict(PYTHONHASHSEED=str(x)) for x in (case.get('hashseeds') or [0, 0, 0, 0])]
            rc_f, out_f, err_f = cli.run_main(opts + ['-l', log], stdin=b'q\n', extra_env=hs[0])
            if case.get('slow_pipe'):
                # the producer at the other end of the pipe starts late and pauses mid-stream (in the middle of a line)
                cut = len(data) // 2
                rc_p, out_p, err_p = cli.run_main_slow_stdin(opts + ['-p'], [(data[:cut], case['slow_pipe'][0]), (data[cut:], case['slow_pipe'][1])], extra_env=hs[1])
            else:
                rc_p, out_p, err_p = cli.run_main(opts + ['-p'], stdin=data, extra_env=hs[1])
            res.evals += 2
            if rc_f is None or rc_p is None:
                res.label('timeout(inconclusive)')      # a slow run is never a violation
                return res
            out_f = out_f.replace(PROMPT, b'')
            if rc_f != 0 or rc_p != 0:
                res.bad('file-or-pipe-mode-exit-status', 'file %r pipe %r: %r' % (rc_f, rc_p, (err_f + err_p)[-300:]))
            # absolute anchor for the differential: without a filter every message line of the stream is shown (in particular the
            # last one, also when it has no newline), every other line is passed through unless --supress
            if not case.get('filter') and 'nmsg' in case:
                import re as _re
                shown = len(_re.findall(rb'^\s*-?\d+\.\d{4} \w*: ', out_f, _re.M))
                if shown != case['nmsg']:
                    res.bad('file-mode-message-lines', '%d message lines shown for %d in the stream' % (shown, case['nmsg']))
                others = [l for l in _re.split(r'[\r\n]', case['text'])]
                # universal newlines: \r\n is one line end, a bare \r or \n is one each
                parts = _re.split(r'\r\n|\r|\n', case['text'])
                nother = len(parts[:-1] if parts[-1] == '' else parts) - case['nmsg']
                passed = len(_re.findall(rb'^       \|  ', out_f, _re.M))
                if not case.get('supress') and passed != nother:
                    res.bad('file-mode-passthrough-lines', '%d lines passed through, %d non-message lines in the stream' % (passed, nother))
            if out_f != out_p:
                res.bad('file-vs-pipe-display', first_diff(out_f, out_p))
            if case.get('file_via'):
                # -l on a named pipe the program writes to, or on /dev/stdin: a path like any other
                if case['file_via'] == 'fifo':
                    import threading
                    fifo = sc.path('stream.fifo')
                    os.mkfifo(fifo)

                    def feed():
                        try:
                            with open(fifo, 'wb') as f:
                                cut = len(data) // 2
                                f.write(data[:cut]); f.flush()
                                f.write(data[cut:])
                        except OSError:
                            pass
                    th = threading.Thread(target=feed, daemon=True)
                    th.start()
                    rc_v, out_v, err_v = cli.run_main(opts + ['-l', fifo], stdin=b'q\n', extra_env=hs[0], timeout=60)
                    if rc_v is None:
                        # nobody opened the pipe for reading: let the writer go
                        try:
                            fd = os.open(fifo, os.O_RDONLY | os.O_NONBLOCK); os.close(fd)
                        except OSError:
                            pass
                    th.join(timeout=5)
                else:
                    rc_v, out_v, err_v = cli.run_main(opts + ['-l', '/dev/stdin'], stdin=data, extra_env=hs[0], timeout=60)
                res.evals += 1
                if rc_v is None:
                    res.label('timeout(inconclusive)')
                else:
                    out_v = out_v.replace(PROMPT, b'')
                    if rc_v != 0:
                        res.bad('file-mode-exit-status:' + case['file_via'], 'exit %r, stderr %r' % (rc_v, err_v[-200:]))
                    if out_v != out_f:
                        res.bad('file-mode-display:' + case['file_via'], first_diff(out_f, out_v))
                res.label('file-mode-on-' + case['file_via'])
            if case.get('brk'):
                # pipe mode says once that nothing can be stopped there; the display itself must not differ
                err_p = err_p.replace(b'Warning: Ignoring stop matcher when stdin is used for messages\n', b'', 1)
            if err_f != err_p:
                res.bad('file-vs-pipe-stderr', first_diff(err_f, err_p))
            # nobody at the prompt (standard input at end of file, as under cron or with </dev/null): the session just ends, the
            # program's exit status is still handed on
            run_stdin = b'r\n' * (case['nmsg'] + 2 if case.get('brk') else 0) + (b'' if case.get('no_stdin') else b'q\n')
            marker = (MARKER % case['marker'])
            run_opts = list(opts)
            if case.get('libwayland'):
                # a directory with (supposedly) the libwayland to use, given before the marker: it goes into the program's
                # LD_LIBRARY_PATH; everything else about the program's start stays as it is
                os.makedirs(sc.path('libwl dir'), exist_ok=True)
                run_opts = ['--libwayland', sc.path('libwl dir')] + run_opts
            outs = []
            for k, chunks in enumerate(case['chunks']):
                report = sc.path('report%d.json' % k)
                linger = case.get('linger', 0) if k == 0 else 0
                spec = sc.write('spec%d.json' % k, json.dumps(dict(report=report, chunks=chunks, exit=case['exit'], stdout=marker, linger=linger)))
                extra = dict(hs[2 + k], WDV_CHILD_SPEC=spec)
                if via_shell:
                    extra.update(WDV_ARGV0_OUT=sc.path('cmdline%d' % k), WDV_PY=cli.PY, WDV_CHILD=child)
                if case.get('parent_wayland_debug') is not None:
                    extra['WAYLAND_DEBUG'] = case['parent_wayland_debug']     # wayland-debug itself started from such an environment
                rc, out, err = cli.run_main(run_opts + ['-r'] + command + case['argv'], stdin=run_stdin, extra_env=extra)
                res.evals += 1
                if b'Failed to join subprocess thread' in err and linger:
                    # the program closed its stderr and exited 1.3 s later: the tool must wait for it and hand on its exit status.
                    # Confirm once more before calling it a violation (wall-clock effects must not raise an alarm)
                    rc2, out2, err2 = cli.run_main(run_opts + ['-r'] + command + case['argv'], stdin=run_stdin, extra_env=extra)
                    if rc2 != case['exit']:
                        res.bad('exit-status:lingering-program', 'program closed stderr, exited %d after 1.3 s; wayland-debug exited with %r twice (stderr %r)' % (case['exit'], rc2, err2[-200:]))
                    continue
                if rc is None or b'Failed to join subprocess thread' in err:
                    # wall-clock effects (timeout here, or the tool's own 1 s join timeout under load) are inconclusive, never a violation
                    res.label('timeout(inconclusive)')
                    res.count('inconclusive-runs')
                    continue
                if not os.path.exists(report):
                    res.bad('program-not-started', 'rc=%r err=%r' % (rc, err[-300:]))
                    continue
                rep = json.load(open(report))
                if rep['argv'] != case['argv']:
                    res.bad('program-argv', 'started with %r, expected %r' % (rep['argv'], case['argv']))
                if via_shell:
                    got = open(sc.path('cmdline%d' % k), 'rb').read().split(b'\0') if os.path.exists(sc.path('cmdline%d' % k)) else None
                    want = [w.encode() for w in command + case['argv']]
                    if got is None or got[:len(want)] != want:
                        res.bad('program-argv0', 'started as %r, the program\'s own command line reads %r' % (command[:1] + ['-c', '...'] + command[3:] + case['argv'], got and got[:len(want)]))
                if rep['wayland_debug'] != '1':
                    res.bad('wayland-debug-env', repr(rep['wayland_debug']))
                if case.get('libwayland') and sc.path('libwl dir') not in (rep.get('ld') or '').split(':'):
                    res.bad('libwayland-dir-not-handed-on', 'LD_LIBRARY_PATH of the program is %r' % rep.get('ld'))
                if rc != case['exit']:
                    res.bad('exit-status', 'program exited with %d, wayland-debug with %r (stderr %r)' % (case['exit'], rc, err[-200:]))
                mb = marker.encode()
                if out.count(mb) != 1:
                    res.bad('program-stdout-not-untouched', 'marker seen %d times in %r' % (out.count(mb), out[:200]))
                out = out.replace(mb, b'', 1).replace(PROMPT, b'')
                outs.append(out)
                if out != out_f:
                    res.bad('run-vs-file-display', 'chunking %d: %s' % (k, first_diff(out_f, out)))
                if case.get('libwayland'):
                    # the notices about where libwayland is (not) found differ with the option; they are not part of the display
                    drop = lambda e: b'\n'.join(l for l in e.split(b'\n') if b'libwayland' not in l and b'Wayland client library' not in l and b'Wayland server library' not in l)
                    err, err_f_cmp = drop(err), drop(err_f)
                else:
                    err_f_cmp = err_f
                if err != err_f_cmp:
                    res.bad('run-vs-file-stderr', 'chunking %d: %s' % (k, first_diff(err_f_cmp, err)))
            if len(outs) == 2 and outs[0] != outs[1]:
                res.bad('chunking-changes-display', first_diff(outs[0], outs[1]))
        nl = case['text'].count('\n')
        midline = any(sum(len(c[0]) for c in ch[:i + 1]) not in line_ends(data) for ch in case['chunks'] for i in range(len(ch) - 1))
        res.nontrivial = nl >= 5 and midline and (case['exit'] != 0 or any(a.startswith('-') for a in case['argv']))
        if midline: res.label('mid-line-chunk-boundary')
        if case['exit']: res.label('non-zero-exit')
        if not case['text'].endswith('\n'): res.label('no-final-newline')
        if any(ord(c) > 127 for c in case['text']): res.label('multi-byte')
        if '\ue000' in case['text']: res.label('undecodable-byte-in-chatter')
        if case.get('libwayland'): res.label('with --libwayland DIR')
        if case.get('no_stdin'): res.label('nobody-at-the-prompt')
        if case.get('slow_pipe'): res.label('slow-producer-on-the-pipe')
        if case.get('brk'): res.label('with -b')
        if case.get('exe') and not case['argv']: res.label('program-is-one-word')
        if case.get('via_shell') and not (case.get('exe') and not case['argv']): res.label('program-by-bare-name')
        if '\r' in case['text']: res.label('carriage-return-in-chatter')
        if case['text'].startswith('\ufeff'): res.label('byte-order-mark-first')
        if any(a.startswith('-') for a in case['argv']): res.label('option-lookalike-argv')
        if case.get('parent_wayland_debug') not in (None, '1'): res.label('parent-WAYLAND_DEBUG-set-otherwise')
        if case.get('linger'): res.label('program-lingers-after-closing-stderr')
        res.sample = dict(lines=case['text'].split('\n')[:6], chunks=[len(c) for c in case['chunks']], exit=case['exit'], argv=case['argv'])
        return res


def line_ends(data):
    s = set()
    for i, b in enumerate(data):
        if b == 10:
            s.add(i + 1)
    return s


def first_diff(a, b):
    la, lb = a.split(b'\n'), b.split(b'\n')
    for i, (x, y) in enumerate(zip(la, lb)):
        if x != y:
            return 'line %d: %r vs %r' % (i, x[:200], y[:200])
    return '%d vs %d lines (first extra: %r)' % (len(la), len(lb), (la + lb)[min(len(la), len(lb))][:200])


class OnATerminal(Stage):
    """the same stream shown with standard output on a terminal and no colour option given - as when the tool is started by
    hand: file mode and run mode (somebody at the keyboard), pipe mode (standard input is the stream) and file mode with
    nobody at the keyboard must put the same bytes on the terminal"""
    name = 'on-a-terminal'

    def examples(self, tier):
        return 5 if tier == 'quick' else 14 * 8

    def gen(self, d, tier):
        specs = histgen.history(d, nconn=d.int(1, 2), nmsg=d.int(2, 10), profile=PROFILE)
        lines = []
        for m in specs:
            if d.chance(0.3):
                lines.append(d.choice(['loading theme', 'warning: slow frame', '  indented', 'x = 1']))
            lines.append(wire.render(m, 'new'))
        return dict(text='\n'.join(lines) + '\n', exit=d.choice([0, 3]), opts=d.choice([[], [], ['--supress'], ['-f', 'wl_display']]))

    def execute(self, case):
        res = Result()
        res.evals = 0
        data = case['text'].encode()
        opts = list(case['opts'])
        with cli.Scratch() as sc:
            log = sc.write('stream.log', data, 'wb')
            child = sc.write('child.py', cli.CHILD)
            spec = sc.write('spec.json', json.dumps(dict(report=sc.path('report.json'), chunks=[[list(data), 0]], exit=case['exit'], linger=0)))
            runs = dict(
                file=cli.run_main_on_terminal(opts + ['-l', log], stdin=b'q\n', stdin_terminal=True),
                file_nobody=cli.run_main_on_terminal(opts + ['-l', log], stdin=b'', stdin_terminal=False),
                pipe=cli.run_main_on_terminal(opts + ['-p'], stdin=data),
                run=cli.run_main_on_terminal(opts + ['-r', cli.PY, child], stdin=b'q\n', stdin_terminal=True, extra_env=dict(WDV_CHILD_SPEC=spec)))
        res.evals = len(runs)
        if any(r[0] is None for r in runs.values()):
            res.label('timeout(inconclusive)')
            return res
        shown = {k: r[1].replace(PROMPT, b'') for k, r in runs.items()}
        if b'\x1b[' not in shown['file']:
            res.label('no-colour-on-this-terminal(inconclusive)')       # the comparison would say nothing
            return res
        for k in ('file_nobody', 'pipe', 'run'):
            if shown[k] != shown['file']:
                res.bad('terminal-display:file-vs-%s' % k.replace('_', '-'), first_diff(shown['file'], shown[k]))
        want = dict(file=0, file_nobody=0, pipe=0, run=case['exit'])
        for k, r in runs.items():
            if r[0] != want[k]:
                res.bad('terminal-exit-status:' + k, '%s mode on a terminal exited with %r, expected %r; stderr %r' % (k, r[0], want[k], r[2][-200:]))
        res.nontrivial = case['text'].count('\n') >= 3
        res.label('stdout-on-a-terminal')
        res.sample = dict(lines=case['text'].split('\n')[:5], opts=opts)
        return res


class C13(Prop):
    id = 'C13'
    rule = ('generated message streams with chatter (UTF-8 incl. multi-byte characters, final newline or not) are shown through real '
            'subprocesses: main.py -l FILE, main.py -p < FILE and main.py -r CHILD (twice, with two drawn chunkings of the byte stream into '
            'writes on fd 2, boundaries anywhere incl. mid-line and mid-character, delays 0/1/5 ms, the child _exit()ing right after its last '
            'write); stdout (minus prompt and the child\'s own stdout marker) and stderr must be identical in all modes and chunkings, the '
            'child must see its argv verbatim and WAYLAND_DEBUG=1, its stdout marker must arrive once, the exit status must be the child\'s. '
            'non-trivial = stream >= 5 lines with a mid-line chunk boundary and a non-zero exit status or option-like argv; distinct by SHA-1. on-a-terminal: the same stream with standard output (and, where somebody is at the keyboard, standard input) on pseudo-terminals and no colour option: file = file with nobody at the keyboard = pipe = run, byte for byte. modes also loads the stream with -l from a FIFO and from /dev/stdin.')
    assumptions = ['chunkings and delays are sampled on a real pipe; kernel scheduling is not enumerated (single reader thread)',
                   'LC_ALL=C.UTF-8; streams are valid UTF-8 here (undecodable bytes belong to C18)']
    stages = [Modes(), OnATerminal()]


PROP = C13()
