"""C11 - `list` returns exactly the recorded messages that match, with honest counts."""
import re
from .. import env, histgen, model, session, wire, scripts, refmatch as rm
from ..runner import Prop, Stage, Result
from .c06 import PROFILE

COUNT = re.compile(r"^\((\d+) matched, (\d+) didn't(?:, (\d+) not checked)?\)$")
NONE_OF = re.compile(r'^ ╰╴ None of the (\d+) messages so far$')


def state_of(s, probe):
    c = s.ctl
    return (str(c.display_matcher), str(c.stop_matcher), c.current_connection.name() if c.current_connection else None,
            len(c.all_messages), tuple(len(x.messages()) for x in s.cm.connections()),
            tuple(c.display_matcher.matches(m) for m in probe), tuple(c.stop_matcher.matches(m) for m in probe))


def evaluate(case, res):
    from core.util import no_color
    s = session.Session(filter_text=case.get('initial_filter'))
    w = scripts.Walker(s, res, case.get('initial_filter'))
    pre = {}

    def hook(sess, text):
        pre['state'] = state_of(sess, w.recorded[-12:])
    s.on_command = hook
    # the walker must follow the session while it runs: drive it from the segments afterwards, but the
    # before/after state of a listing has to be sampled live, so listings are checked in a second pass
    states = []

    def before_cmd(sess, text):
        pre['before'] = state_of(s, list(s.ctl.all_messages)[-12:])

    def after_cmd(sess, text):
        states.append((text, pre['before'], state_of(s, list(s.ctl.all_messages)[-12:])))
    s.on_command = before_cmd
    s.after_command = after_cmd
    segs = s.run(case['items'], prompt=case.get('prompt', False))
    si = 0
    binding_cap = False
    nonempty_partial = False
    for seg in segs:
        if seg.kind == 'line':
            w.on_line(seg)
            continue
        if seg.kind != 'cmd':
            continue
        text, before, after = states[si]
        si += 1
        it = s.io.items[seg.index]
        k = w.on_cmd_state(seg.text, it[3] if len(it) > 3 else None)
        if not k.startswith('list'):
            continue
        if before != after:
            res.bad('list-changes-state', '%r changed (filter, breakpoint, selection, record) from %r to %r' % (seg.text, before[:5], after[:5]))
        arg = seg.text.strip()
        while re.match(r'(w|wl)\s', arg):
            arg = re.split(r'\s', arg, maxsplit=1)[1].strip()      # the GDB-style prefix is accepted at every prompt
        arg = re.split(r'\s', arg, maxsplit=1)
        arg = arg[1].strip() if len(arg) > 1 else ''
        # `matcher ~ N`: the cap is what follows the last `~` that is not inside a quoted string of the matcher
        parts, cur, quoted = [], '', False
        for ch in arg:
            if ch == '"':
                quoted = not quoted
            if ch == '~' and not quoted:
                parts.append(cur)
                cur = ''
            else:
                cur += ch
        parts.append(cur)
        cap = None
        out = seg.out_lines()
        err = seg.err_lines()
        if len(parts) == 2:
            try:
                cap = int(parts[1])
            except ValueError:
                if not any('Expected number' in l for l in err):
                    res.bad('bad-cap-not-reported', '%r: err=%r' % (seg.text, err))
                if any(session.MSG_LINE.match(l) for l in out):
                    res.bad('bad-cap-lists-anyway', seg.text)
                continue
        elif len(parts) > 2:
            continue                                    # more than one ~ : not a documented form
        mt = parts[0].strip()
        if mt:
            lm = w.parse(mt)
            if lm is None:
                if not any('Failed to parse' in l for l in err):
                    res.bad('malformed-list-matcher-not-reported', '%r: err=%r' % (seg.text, err))
                if any(session.MSG_LINE.match(l) for l in out):
                    res.bad('malformed-list-matcher-lists-messages', seg.text)
                continue
            matches = lambda m: w.parse(mt).matches(m)      # a fresh instance per message: the expectation is a function of (expression, message) only
        else:
            if w.unknown:
                res.count('filter-meaning-not-modelled(skipped)')
                continue
            matches = lambda m: w.filter_matches(m)
        pool = w.pool()
        allm = [m for m in pool if matches(m)]
        res.evals += len(pool)
        meta = it[3] if len(it) > 3 and isinstance(it[3], dict) else None
        if meta and meta.get('ast') is not None and mt:
            # the matcher was rendered from a syntax tree: what it selects by the documented meaning (where that is settled)
            sel = {id(m) for m in allm}
            for m in pool:
                e = rm.ev(meta['ast'], m)
                if e is True and id(m) not in sel:
                    res.bad('list-matcher-meaning:misses', '%r does not select %s, which it does by the documented meaning' % (mt, no_color(str(m))))
                    break
                if e is False and id(m) in sel:
                    res.bad('list-matcher-meaning:selects', '%r selects %s, which it does not by the documented meaning' % (mt, no_color(str(m))))
                    break
            res.count('listings-checked-against-documented-meaning')
        w.changes['listings'] += 1
        if not out or not out[0].startswith('Messages that match '):
            res.bad('list-header-missing', '%r printed %r' % (seg.text, out[:2]))
            continue
        listed = [l for l in out[1:] if session.MSG_LINE.match(l)]
        if cap is not None and cap < 0:
            continue                                    # negative caps are not in the statement
        if cap == 0:
            exp = None                                  # the statement covers N >= 1 and absent; only sanity below
        elif cap is None:
            exp = allm
        else:
            exp = allm[-cap:]
            if len(allm) > cap:
                binding_cap = True
        if exp is not None:
            if listed != session.render_shown(exp):
                kind = 'list-wrong-messages'
                if len(listed) != len(exp):
                    kind = 'list-wrong-number-of-messages'
                elif sorted(listed) == sorted(session.render_shown(exp)):
                    kind = 'list-wrong-order'
                res.bad(kind, '%r (selection %r, filter %r): listed %d %r, expected %d %r' % (
                    seg.text, w.sel, w.filter_text, len(listed), listed[:3], len(exp), session.render_shown(exp)[:3]))
        else:
            allr = session.render_shown(allm)
            if any(l not in allr for l in listed):
                res.bad('list-shows-non-matching', seg.text)
        counts = [COUNT.match(l) for l in out if COUNT.match(l)]
        nones = [NONE_OF.match(l) for l in out if NONE_OF.match(l)]
        if listed:
            if len(counts) != 1:
                res.bad('count-line-missing', '%r printed %r' % (seg.text, out[-2:]))
            else:
                a, b, c = counts[0].groups()
                a, b, c = int(a), int(b), int(c or 0)
                if a + b + c != len(pool):
                    res.bad('counts-do-not-add-up', '%r: %d+%d+%d != %d recorded' % (seg.text, a, b, c, len(pool)))
                if a != len(listed):
                    res.bad('matched-count-is-not-lines-shown', '%r: %d matched, %d lines' % (seg.text, a, len(listed)))
            if 0 < len(listed) < len(pool):
                nonempty_partial = True
        else:
            if pool and not allm:
                if len(nones) != 1 or int(nones[0].group(1)) != len(pool):
                    res.bad('none-of-K-wrong', '%r printed %r with %d recorded' % (seg.text, out[-1:], len(pool)))
            elif allm and exp:
                pass   # already reported as wrong number of messages
    return w, binding_cap, nonempty_partial


class Listings(Stage):
    name = 'listings'

    def examples(self, tier):
        return 300 if tier == 'quick' else 14 * 2500

    def gen(self, d, tier):
        nil_rich = d.chance(0.35)
        prof = dict(PROFILE, weights=dict(PROFILE.get('weights') or {}, nulls=40, bind=20, message=30, delete=8)) if nil_rich else (
            dict(PROFILE, weights=dict(PROFILE.get('weights') or {}, enum=40)) if d.chance(0.3) else PROFILE)
        specs = histgen.history(d, nconn=d.int(1, 3), nmsg=d.int(4, 36), profile=prof, tagged=True)
        initial = None
        if d.chance(0.3):
            initial = scripts.gen_matcher_text(d, rm.Gen(d, rm.vocab(specs), 1))
        dialect = d.choice(['new', 'new', 'old'])      # what libwayland 1.22+ prints, or the older print-out of the same traffic
        items = scripts.gen_script(d, specs, dialect, list_heavy=True, depth=2)
        # the same text given to `filter` (extending a filter) and then to `list`: the listing must mean just that text
        if d.chance(0.4):
            V = rm.vocab(specs)
            bare = [str(t) for t in V.get('type', [])[:8]] + ['wl_display', 'wl_registry', 'wl_callback', '2', '3']
            x, t = d.choice(bare), d.choice(bare)
            if d.chance(0.4):
                t = t + ', ' + d.choice(bare)
            pos = d.int(0, len(items))
            items[pos:pos] = [['cmd', 'filter !'], ['cmd', 'filter ' + x, None, dict(alts=[x], excl=[])],
                              ['cmd', 'filter ' + t, None, dict(alts=[a.strip() for a in t.split(',')], excl=[])], ['cmd', 'list ' + t], ['cmd', 'list']]
        if d.chance(0.2):
            # a quoted string may contain a `~` (a path such as ~/src): it belongs to the matcher, not to the cap
            t = d.choice(['.set_title("~/src")', '("a~b")', '.("~")', '(title="x ~ 2")'])
            items.append(['cmd', 'list ' + t + d.choice(['', ' ~ 1', ' ~ 2', '~3'])])
        V0 = rm.vocab(specs)
        labs = [str(x) for x in (V0.get('label') or [])]
        if labs and d.chance(0.5):
            # enum labels asked of messages that may never have been displayed (hidden by the start-up filter): the first such
            # query and a repeated one must agree with each other and with the record
            if d.chance(0.5):
                initial = d.choice(['wl_display', '.get_registry', '!', 'wl_registry'])
            lab = d.choice(labs)
            q = d.choice(['list (%s)', 'list .(%s)', 'list * ! (%s)']) % lab
            items += [['cmd', q], ['cmd', 'list'], ['cmd', q]]
        niltypes = sorted({a[1] for m in specs for a in m['args'] if a[0] == 'obj' and a[2] is None and a[1]})
        if niltypes and d.chance(0.95 if nil_rich else 0.25):
            # nil arguments carry their declared interface: listings by interface over nil arguments of several interfaces
            for _ in range(d.int(2, 4)):
                t = d.choice(niltypes)
                items.append(['cmd', d.choice(['list %s', 'list (%s)', 'list %s, wl_registry', 'list * ! %s']) % t + d.choice(['', '', ' ~ 2'])])
        # always end with a few listings so that every session has some
        g = rm.Gen(d, rm.vocab(specs), 1)
        for _ in range(d.int(1, 3)):
            items.append(['cmd', 'list ' + scripts.gen_matcher_text(d, g) + d.choice(['', ' ~ 1', ' ~ 2', ' ~ 3', ' ~ 100'])])
        # the final listings are typed at the tool's own prompt after the input ended (file / run mode) or between lines
        return dict(dialect=dialect, specs=specs, initial_filter=initial, items=items, prompt=d.chance(0.5))

    def execute(self, case):
        res = Result()
        res.evals = 0
        w, binding, partial = evaluate(case, res)
        res.nontrivial = binding and partial
        if binding: res.label('binding-cap')
        if partial: res.label('non-empty-partial-listing')
        if w.changes['selection']: res.label('selection-used')
        res.count('listings', w.changes['listings'])
        res.sample = dict(commands=[i[1] for i in case['items'] if i[0] == 'cmd'][:10], messages=len(case['specs']))
        return res


class LongListings(Stage):
    """listings over sessions of thousands of messages (expanded from a drawn template): caps around 1000, labels deep into the
    incarnation letters, listings in the middle of the stream and at the end"""
    name = 'long-listings'

    def examples(self, tier):
        return 8 if tier == 'quick' else 14 * 10

    def gen(self, d, tier):
        t = histgen.gen_long_template(d)
        t['cycles'] = d.choice([d.int(260, 400), d.int(703, 760), d.int(1000, 1300)])
        x = t['lanes'][0]['id']
        deep = model.letters(d.int(0, t['cycles'] - 1))
        cmds = []
        for _ in range(d.int(3, 6)):
            mt = d.choice(['', '', '.delete_id', 'wl_display', '%d%s' % (x, deep), '%d' % x, '.sync, .create_region, .create_surface', '* ! .delete_id', 'wl_callback, wl_region, wl_surface',
                           '(%d)' % x, '.destroy'])
            cap = d.choice(['', '', ' ~ 1', ' ~ 2', ' ~ 999', ' ~ 1000', ' ~ 1001', ' ~ 2048', ' ~ 5000', ' ~ %d' % d.int(1, 6000)])
            cmds.append('list ' + mt + cap)
        return dict(template=t, cmds=cmds, mid=d.int(0, 100), prompt=d.chance(0.5))

    def execute(self, case):
        res = Result()
        res.evals = 0
        specs = histgen.expand_long(case['template'])
        lines = [['line', wire.render(m, 'new'), m['conn']] for m in specs]
        k = len(lines) * case['mid'] // 100
        items = lines[:k] + [['cmd', case['cmds'][0]]] + lines[k:] + [['cmd', c] for c in case['cmds'][1:]]
        w, binding, partial = evaluate(dict(dialect='new', specs=specs, initial_filter=None, items=items, prompt=case.get('prompt', False)), res)
        res.nontrivial = binding and partial
        if binding: res.label('binding-cap')
        if partial: res.label('non-empty-partial-listing')
        res.label('messages>=%d000' % (len(specs) // 1000) if len(specs) >= 1000 else 'messages<1000')
        res.count('listings', w.changes['listings'])
        res.sample = dict(commands=case['cmds'], messages=len(specs))
        return res


class HugeSessions(Stage):
    """sessions an order of magnitude beyond the in-process stages (a GDB session left running, a compositor's log of a working
    day): a fresh `main.py -l` process loads 100 000 .. 270 000 messages of two connections and answers listings at its prompt.
    The early messages are still there, the counts add up to the number of messages recorded, caps give the last N."""
    name = 'huge-sessions'

    def examples(self, tier):
        return 2 if tier == 'quick' else 14

    def gen(self, d, tier):
        return dict(n=d.choice([100_003, 131_075, 200_001, 262_147]) + d.int(0, 40), early=d.int(2, 30), cap=d.choice([1, 2, 7, 1000, 4097]),
                    marker=d.choice(['wl_shm', 'wl_seat', 'xdg_wm_base']))

    def execute(self, case):
        from .. import cli
        res = Result()
        n, early = case['n'], case['early']
        lines = ['[1000.000] <1>  -> wl_display#1.get_registry(new id wl_registry#2)', '[1000.100] <2>  -> wl_display#1.get_registry(new id wl_registry#2)']
        lines += ['[1000.%03d] <1> wl_registry#2.global(%d, "%s", 1)' % (200 + i, i + 1, case['marker']) for i in range(early)]
        t = 1001000
        k = 3
        while len(lines) < n - 1:
            # connection 2 goes on for the rest of the day: sync / done / delete_id over and over on re-used ids
            for l in ('[%d.%03d] <2>  -> wl_display#1.sync(new id wl_callback#%d)' % (t // 1000, t % 1000, k), '[%d.%03d] <2> wl_callback#%d.done(%d)' % (t // 1000, (t + 1) % 1000, k, t & 0xffff),
                      '[%d.%03d] <2> wl_display#1.delete_id(%d)' % (t // 1000, (t + 2) % 1000, k)):
                if len(lines) < n - 1:
                    lines.append(l)
            t += 7
        lines.append('[%d.%03d] <1>  -> wl_display#1.sync(new id wl_callback#3)' % (t // 1000 + 1, 0))
        n = len(lines)
        cmds = ['list .global', 'list A:', 'list .get_registry', 'list * ~ %d' % case['cap'], 'list A: ~ %d' % case['cap'], 'q']
        with cli.Scratch() as sc:
            log = sc.write('huge.log', '\n'.join(lines) + '\n')
            rc, out, err = cli.run_main(['-C', '-l', log, '-f', '!'], stdin=('\n'.join(cmds) + '\n').encode(), timeout=900)
        res.evals = n
        if rc is None:
            res.label('timed-out(inconclusive)')
            return res
        text = out.decode('utf-8', 'replace')
        if rc != 0 or 'Traceback' in err.decode('utf-8', 'replace'):
            res.bad('huge:exit', 'exit status %r, stderr %r' % (rc, err[-300:]))
            return res
        # one block per command: the message lines it listed and its count line
        blocks, cur = [], None
        for l in text.split('\n'):
            while l.startswith('wl debug $ '):
                l = l[len('wl debug $ '):]
            if l.startswith('Messages that match'):
                cur = dict(head=l, lines=[], count=None, none=None)
                blocks.append(cur)
            elif cur is not None and NONE_OF.match(l):
                cur['none'] = int(NONE_OF.match(l).group(1))
            elif cur is not None and session.MSG_LINE.match(l):
                cur['lines'].append(l)
            elif cur is not None and COUNT.match(l.strip()):
                cur['count'] = [int(x or 0) for x in COUNT.match(l.strip()).groups()]
        a_msgs = 2 + early        # connection A: its get_registry, the globals, the last sync
        want = [('list .global', early, None), ('list A:', a_msgs, None), ('list .get_registry', 2, None), ('cap', min(case['cap'], n), case['cap']), ('cap A:', min(case['cap'], a_msgs), case['cap'])]
        if len(blocks) != len(want):
            res.bad('huge:listings', '%d listings answered, %d asked; output tail %r' % (len(blocks), len(want), text[-300:]))
            return res
        for (what, k, cap), b in zip(want, blocks):
            if len(b['lines']) != k:
                res.bad('huge:list-wrong-number-of-messages', '%s over %d recorded messages: %d lines, expected %d (%s)' % (what, n, len(b['lines']), k, b['head'][:80]))
            if b['count'] is not None and sum(b['count']) != n:
                res.bad('huge:counts-do-not-add-up', '%s: %r adds up to %d, %d messages were recorded' % (what, b['count'], sum(b['count']), n))
            if b['count'] is None and k:
                res.bad('huge:no-count-line', '%s: no count line' % what)
            if b['none'] is not None and b['none'] != n:
                res.bad('huge:none-of-K-wrong', '%s: none of %d messages, %d were recorded' % (what, b['none'], n))
        if blocks[0]['lines'] and case['marker'] not in blocks[0]['lines'][0]:
            res.bad('huge:list-wrong-messages', 'list .global shows %r' % blocks[0]['lines'][0])
        if blocks[3]['lines'] and 'sync' not in blocks[3]['lines'][-1]:
            res.bad('huge:cap-is-not-the-last', 'list ~ %d ends with %r' % (case['cap'], blocks[3]['lines'][-1]))
        res.nontrivial = True
        res.label('messages>=%d0000' % (n // 10000))
        res.sample = dict(messages=n, commands=cmds)
        return res


class C11(Prop):
    id = 'C11'
    rule = ('scripted sessions (as C06) with list-heavy command weights: `list [matcher] [~ N]` with N absent, 0, 1, 2, 3, 5, 50, 100, a non-number; '
            'every listing is compared with the recorded messages of the selection filtered by an independently parsed matcher (or the current '
            'filter), last N for caps >= 1, matched+didn\'t+not checked = recorded, matched = lines shown, None-of-K form, and the '
            'filter/breakpoint/selection/record sampled before and after. non-trivial = session with a non-empty listing smaller than the '
            'record and a binding cap; distinct by SHA-1 of the case. long-listings: the same comparisons over sessions of 800..12 000 messages expanded from a drawn template, caps around 1000 and up to 6000, labels deep into the incarnation letters, one listing mid-stream. Listings whose matcher was rendered from a syntax tree (depth <= 2) are also compared with the documented meaning where that is settled.')
    assumptions = ['matcher meaning is C05\'s business', 'cap 0 and negative caps are outside the statement (only sanity-checked)']
    stages = [Listings(), LongListings(), HugeSessions()]


PROP = C11()
