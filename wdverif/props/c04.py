"""C04 - messages are attributed to the right connection; connections are isolated."""
import re
from .. import env, histgen, model, session, wire
from ..runner import Prop, Stage, Result, Draw

LIFE = re.compile(r' after -?\d+\.\d{4}s')
# the default mix plus messages on objects the log never showed being created (a log that starts mid-session)
WEIGHTS = dict(repeat=4, delete=14, bind=12, message=40, server_event=10, sync=4, enum=8, title=6, retype=6, newer=4, nulls=4, midsession=7)


def projection(s, conn):
    """everything shown for one connection, without its name and without time-valued text"""
    return dict(
        role=conn.is_server(),
        open=conn.is_open(),
        count=len(conn.messages()),
        lines=[LIFE.sub(' after Ts', str(m)) for m in conn.messages()],
        table={str(i): [[o.type, o.id, o.generation, o.alive] for o in l] for i, l in sorted(conn.db.items())},
    )


COUNTS = re.compile(r"^\((\d+) matched, (\d+) didn't(?:, (\d+) not checked)?\)$")


def listing_projection(s, conn):
    """what `list` says for one connection when it is selected, and what `list NAME: <type>` selects: lines without times
    and names, and the counts"""
    name = conn.name()
    out = {}
    types = []
    for l in conn.db.values():
        for o in l:
            if o.type and o.type not in types:
                types.append(o.type)
    cmds = [('selected-list', ['connection ' + name, 'list', 'list ~ 2', 'connection all'])]
    for t in types[:3]:
        cmds.append(('list-type-' + t, ['list %s: %s' % (name, t)]))
    for key, cl in cmds:
        n0 = len(s.out.buffer)
        for c in cl:
            s.ctl.process_command(c)
        lines = s.out.buffer[n0:].split('\n')[:-1]
        body = []
        for l in lines:
            mm = session.MSG_LINE.match(l)
            if mm:
                body.append(LIFE.sub(' after Ts', mm.group(3)))
            elif COUNTS.match(l) and key == 'selected-list':
                body.append(l)      # with a connection selected the counts are that connection's own; without, other connections' messages count as "didn't match"
        out[key] = body
    return out


def model_projection(mc):
    return dict(
        role={'client': False, 'server': True}.get(mc.role),
        count=len(mc.msgs),
        table={str(i): [[o.iface, o.id, o.gen, o.alive] for o in l] for i, l in sorted(mc.db.items())},
    )


def merged(case, order):
    hs = case['histories']
    idx = [0] * len(hs)
    out = []
    t = case['t0']
    for n, k in enumerate(order):
        m = dict(hs[k]['specs'][idx[k]])
        idx[k] += 1
        t = min(t + case['gaps'][n % len(case['gaps'])], histgen.T_MAX)
        m['conn'] = hs[k]['tag']
        m['t_us'] = t
        out.append(m)
    return out


def run_interleaved(specs, res, tagsuffix=''):
    s = session.Session()
    segs = s.run([['line', wire.render(m, 'new')] for m in specs] + [['cmd', 'connection']])
    W = model.MWorld()
    W_ids_before = []
    for m in specs:
        c = W.conns.get(m['conn'] if m['conn'] is not None else 'PARSED')
        W_ids_before.append(set(c.db) if c is not None else {1})
        W.step(m)
    # notices: exactly one New before the first message line of X, exactly one Closed after the last input line
    seen_new, first_line = {}, {}
    lines_out = []
    for seg in segs:
        for l in seg.out_lines():
            lines_out.append((seg.kind, seg.index, l))
    for pos, (kind, idx, l) in enumerate(lines_out):
        mm = session.NEW_LINE.match(l)
        if mm:
            seen_new.setdefault(mm.group(2), []).append((pos, mm.group(1)))
        mm = session.MSG_LINE.match(l)
        if mm and mm.group(2) not in first_line:
            first_line[mm.group(2)] = pos
    names = [W.conns[t].name for t in W.order]
    for t in W.order:
        mc = W.conns[t]
        nn = seen_new.get(mc.name, [])
        if len(nn) != 1:
            res.bad('new-notice-count', 'connection %s announced %d times' % (mc.name, len(nn)))
        elif mc.name in first_line and nn[0][0] > first_line[mc.name]:
            res.bad('new-notice-after-first-message', mc.name)
        elif mc.role in ('client', 'server') and nn[0][1] != mc.role:
            res.bad('new-notice-role', '%s announced as %s, first message says %s' % (mc.name, nn[0][1], mc.role))
    if sorted(seen_new) != sorted(names):
        res.bad('announced-names', '%r, model %r' % (sorted(seen_new), sorted(names)))
    eof = [seg for seg in segs if seg.kind == 'eof']
    closed = [session.CLOSED_LINE.match(l).group(2) for seg in eof for l in seg.out_lines() if session.CLOSED_LINE.match(l)]
    closed_elsewhere = [l for seg in segs if seg.kind != 'eof' for l in seg.out_lines() if session.CLOSED_LINE.match(l)]
    if sorted(closed) != sorted(names) or closed_elsewhere:
        res.bad('closed-notices', 'closed at end %r (elsewhere %r), connections %r' % (closed, closed_elsewhere, names))
    real = list(s.cm.connections())
    if [c.name() for c in real] != names:
        res.bad('connection-names-order', '%r, model %r' % ([c.name() for c in real], names))
    # each message line carries its connection's name
    msg_lines = [session.MSG_LINE.match(l) for k, i, l in lines_out if k == 'line']
    shown_names = [mm.group(2) for mm in msg_lines if mm]
    model_names = [W.conns[m['conn'] if m['conn'] is not None else 'PARSED'].name for m in specs]
    # (also a message on an object never seen created: it arrived on that connection)
    if shown_names != model_names:
        res.bad('line-prefix', 'prefixes %r, model %r' % (shown_names[:20], model_names[:20]))
    # the `connection` command: listed (open or closed) with role and count
    cmd = [seg for seg in segs if seg.kind == 'cmd']
    listing = [l for seg in cmd for l in seg.out_lines()]
    for t in W.order:
        mc = W.conns[t]
        rows = [l for l in listing if re.match(r'^\s+(=> )?%s \(' % re.escape(mc.name), l)]
        if len(rows) != 1:
            res.bad('connection-command-rows', '%s listed %d times in %r' % (mc.name, len(rows), listing))
            continue
        mm = re.search(r'(\d+) messages$', rows[0])
        if not mm or int(mm.group(1)) != len(mc.msgs):
            res.bad('connection-command-count', '%r, model %d' % (rows[0], len(mc.msgs)))
        if mc.role in ('client', 'server') and ('(' + mc.role) not in rows[0]:
            res.bad('connection-command-role', '%r, model %s' % (rows[0], mc.role))
    return s, W


class Isolation(Stage):
    name = 'isolation'

    def examples(self, tier):
        return 300 if tier == 'quick' else 14 * 2500

    def gen(self, d, tier):
        n = d.int(1, 4)
        tags = histgen.gen_tags(d, n, tagged=True)
        hs = []
        for k in range(n):
            g = histgen.ConnGen(tags[k], d.choice(['client', 'server']), dict(reuse=0.7, weights=WEIGHTS))
            hs.append(dict(tag=tags[k], specs=[g.next(d) for _ in range(d.int(1, 25 if n < 4 else 14))]))

        def order():
            left = [len(h['specs']) for h in hs]
            o = []
            while any(left):
                k = d.choice([i for i, l in enumerate(left) if l])
                o.append(k)
                left[k] -= 1
            return o
        return dict(histories=hs, orders=[order(), order()], t0=d.choice([0, 5_000_000, 3_000_000_000]),
                    gaps=[histgen.next_gap(d) for _ in range(d.int(1, 6))])

    def execute(self, case):
        res = Result()
        res.evals = 0
        hs = case['histories']
        projs = []
        for oi, order in enumerate(case['orders']):
            specs = merged(case, order)
            s, W = run_interleaved(specs, res)
            p = {}
            for h in hs:
                mc = W.conns[h['tag']]
                rc = [c for c in s.cm.connections() if c.name() == mc.name]
                if len(rc) != 1:
                    res.bad('connection-missing', mc.name)
                    continue
                p[h['tag']] = projection(s, rc[0])
                p[h['tag']]['listings'] = listing_projection(s, rc[0])
                mp = model_projection(mc)
                for k in ('count', 'table'):
                    if p[h['tag']][k] != mp[k]:
                        res.bad('interleaved-vs-model:' + k, 'connection %s (tag %s): %r, model %r' % (mc.name, h['tag'], p[h['tag']][k], mp[k]))
                if mc.role != 'unknown' and p[h['tag']]['role'] != mp['role']:
                    res.bad('interleaved-vs-model:role', 'connection %s: is_server %r, model %s' % (mc.name, p[h['tag']]['role'], mc.role))
                res.evals += len(mc.msgs)
            projs.append(p)
        # alone
        for h in hs:
            alone = merged(dict(case, histories=[h]), [0] * len(h['specs']))
            s = session.run_history(alone, 'new')
            rc = list(s.cm.connections())
            if len(rc) != 1 or rc[0].name() != 'A':
                res.bad('alone-run-connections', repr([c.name() for c in rc]))
                continue
            pa = projection(s, rc[0])
            pa['listings'] = listing_projection(s, rc[0])
            pa['open'] = None
            for oi, p in enumerate(projs):
                pi = dict(p.get(h['tag'], {}))
                pi['open'] = None
                if pi != pa:
                    diff = [k for k in pa if pa[k] != pi.get(k)]
                    detail = ''
                    if 'lines' in diff:
                        for a, b in zip(pa['lines'], pi.get('lines', [])):
                            if a != b:
                                detail = 'alone %r / interleaved %r' % (a, b)
                                break
                    res.bad('alone-vs-interleaved:' + '+'.join(diff), 'connection tag %s differs in %r under merge %d %s' % (h['tag'], diff, oi, detail))
        if len(projs) == 2 and projs[0] != projs[1]:
            res.bad('merge-order-dependence', 'projections differ between the two merge orders')
        o = case['orders'][0]
        switches = sum(1 for a, b in zip(o, o[1:]) if a != b)
        ids = [set(i for m in h['specs'] for i in [m['id']] + [a[2] for a in m['args'] if a[0] in ('obj', 'new') and a[2]]) - {1} for h in hs]
        shared = any(ids[i] & ids[j] for i in range(len(ids)) for j in range(i + 1, len(ids)))
        res.nontrivial = len(hs) >= 2 and shared and switches >= 1
        res.label('connections=%d' % len(hs))
        if shared: res.label('shared-ids')
        if switches: res.label('interleaved')
        res.sample = dict(lines=[wire.render(m, 'new') for m in merged(case, case['orders'][0])[:10]], connections=len(hs))
        return res


def many_tags_specs(n, extra_every, t0=1000):
    """n connections, each with a tag of its own (libwayland-style decimal tags), one line each and a second line for every
    `extra_every`-th; the second lines come after all first lines"""
    specs = []
    t = t0
    tag = lambda k: str(4096 + 16 * k)
    for k in range(n):
        t += 100
        specs.append(dict(conn=tag(k), t_us=t, sent=(k % 3 != 0), iface='wl_display', id=1, name='get_registry', args=[['new', 'wl_registry', 2]]))
    for k in range(0, n, max(1, extra_every)):
        t += 100
        specs.append(dict(conn=tag(k), t_us=t, sent=(k % 3 != 0), iface='wl_display', id=1, name='sync', args=[['new', 'wl_callback', 3]]))
    return specs


class ManyTags(Stage):
    """a log with a great many connection tags (1001..1040, once 18 300: names need three and four letters; the 1000th is ALL):
    every tag is a connection of its own with the next name, announced once, closed once at the end, holding exactly its own
    lines; `connection NAME` + `list` shows that connection only"""
    name = 'many-tags'

    def examples(self, tier):
        return 4 if tier == 'quick' else 14 * 3

    def gen(self, d, tier):
        n = d.choice([d.int(1001, 1040), d.int(1001, 1040), d.int(703, 760), 18300])
        return dict(n=n, extra_every=d.choice([1, 7, 97]), picks=sorted({0, n - 1, 999 % n, 1000 % n} | {d.int(0, n - 1) for _ in range(6)}))

    def execute(self, case):
        res = Result()
        res.evals = 0
        n = case['n']
        specs = many_tags_specs(n, case['extra_every'])
        s = session.run_history(specs, 'new')
        out = s.out.buffer.split('\n')
        names = [c.name() for c in s.cm.connections()]
        want = [model.letters(k, caps=True) for k in range(n)]
        if names != want:
            k = next((i for i, (a, b) in enumerate(zip(names, want)) if a != b), min(len(names), len(want)))
            res.bad('connection-names', '%d connections for %d tags; first difference at #%d: %r, expected %r' % (len(names), n, k, names[k:k + 2], want[k:k + 2]))
            return res
        news = [session.NEW_LINE.match(l).group(2) for l in out if session.NEW_LINE.match(l)]
        closed = [session.CLOSED_LINE.match(l).group(2) for l in out if session.CLOSED_LINE.match(l)]
        if news != want:
            res.bad('new-notices', '%d New notices for %d tags (%r...)' % (len(news), n, news[:3]))
        if sorted(closed) != sorted(want):
            res.bad('closed-notices', '%d Closed notices for %d connections' % (len(closed), n))
        counts = {}
        for m in s.messages():
            c = m.obj.connection.name() if m.obj.connection is not None else None
            counts[c] = counts.get(c, 0) + 1
        exp = {}
        for m in specs:
            nm = want[(int(m['conn']) - 4096) // 16]
            exp[nm] = exp.get(nm, 0) + 1
        if counts != exp:
            bad = [k for k in exp if counts.get(k) != exp[k]][:3]
            res.bad('messages-per-connection', 'differs for %r: %r, expected %r' % (bad, [counts.get(k) for k in bad], [exp[k] for k in bad]))
        res.evals += len(specs)
        line = re.compile(r'^\s*-?\d+\.\d+ (\w+): ', re.M)
        for k in case['picks']:
            nm = want[k]
            n0 = len(s.out.buffer)
            s.ctl.process_command('connection ' + nm)
            s.ctl.process_command('list')
            got = {}
            for lab in line.findall(s.out.buffer[n0:]):
                got[lab] = got.get(lab, 0) + 1
            if got != {nm: exp[nm]}:
                res.bad('connection-command-selects-wrong', '`connection %s` then `list` shows %r, that connection has %d messages (%d connections)' % (nm, got, exp[nm], n))
                break
            res.evals += 1
        res.nontrivial = True
        res.label('connections>=18279' if n >= 18279 else 'connections>=1001' if n >= 1001 else 'connections>=703')
        res.sample = dict(case)
        return res


# ------------------------------------------------------------------------------------------------
# (b) the connection-id sink interface: open / message / close / re-open

class SinkExec:
    def __init__(self):
        from core import ConnectionManager, matcher
        from core.output import Output, stream
        from frontends.tui import Controller
        env.reset_globals()
        self.out = stream.String()
        self.cm = ConnectionManager()
        self.ctl = Controller(Output(False, True, self.out, stream.String()), self.cm, matcher.always, matcher.never)
        self.open = {}        # id -> model dict
        self.all = []         # model connections in creation order
        self.t = 0.0
        self.n = 0

    def apply(self, op, res):
        from core import wl
        kind = op[0]
        self.t += 0.25
        n0 = len(self.out.buffer)
        if kind == 'open':
            _, cid, role = op
            if cid in self.open:
                self.open[cid]['open'] = False
                del self.open[cid]
            mc = dict(name=model.letters(self.n, caps=True), open=True, role=role, msgs=0, ids={1})
            self.n += 1
            self.open[cid] = mc
            self.all.append(mc)
            self.cm.open_connection(self.t, cid, role)
        elif kind == 'close':
            _, cid = op
            if cid in self.open:
                self.open[cid]['open'] = False
                del self.open[cid]
            self.cm.close_connection(self.t, cid)
        elif kind == 'select':
            # somebody looks at one connection only (or at all again): what the others do is still announced and recorded
            self.ctl.process_command('connection ' + op[1])
            if op[1] == 'all':
                self.sel = None
            else:
                hit = [m for m in self.all if m['name'].lower() == op[1].lower()]
                if hit:
                    self.sel = hit[0]['name']      # a name that denotes no connection is refused and changes nothing
            return 0
        elif kind == 'rows':
            # the list of connections: one row each, in order of appearance - marker of the selected one, name, role, state, count
            self.ctl.process_command('connection')
            rows = [l for l in self.out.buffer[n0:].split('\n')[:-1]]
            want = []
            for m in self.all:
                role = 'server' if m['role'] is True else 'client' if m['role'] is False else 'unknown type'
                want.append('%s%s (%s%s): %s, %d messages' % (' => ' if getattr(self, 'sel', None) == m['name'] else '    ', m['name'], role,
                                                               '' if m['open'] else ', closed', 'open' if m['open'] else 'closed', m['msgs']))
            if not self.all:
                want = ['No connections yet']
            if rows != want:
                k = next((i for i, (a, b) in enumerate(zip(rows, want)) if a != b), min(len(rows), len(want)))
                res.bad('sink:connection-rows', '`connection` row %d reads %r, expected %r (selection %r)' % (
                    k, rows[k] if k < len(rows) else None, want[k] if k < len(want) else None, getattr(self, 'sel', None)))
            return 0
        elif kind == 'message':
            _, cid, oid = op
            mc = self.open[cid]
            if oid not in mc['ids']:
                # create the object through wl_display.sync-like message
                msg = wl.Message(self.t, wl.UnresolvedObject(1, 'wl_display'), True, 'sync',
                                 (wl.Arg.Object(wl.UnresolvedObject(oid, 'wl_callback'), True),))
                mc['ids'].add(oid)
            else:
                msg = wl.Message(self.t, wl.UnresolvedObject(oid, None), False, 'done', (wl.Arg.Int(7),))
            mc['msgs'] += 1
            self.cm.message(cid, msg)
        new_out = self.out.buffer[n0:].split('\n')[:-1]
        # invariants
        real = list(self.cm.connections())
        if [c.name() for c in real] != [m['name'] for m in self.all]:
            res.bad('sink:names', '%r, model %r' % ([c.name() for c in real], [m['name'] for m in self.all]))
            return
        for c, m in zip(real, self.all):
            if c.is_open() != m['open']:
                res.bad('sink:open-flag', '%s is_open %r, model %r after %r' % (m['name'], c.is_open(), m['open'], op))
            if len(c.messages()) != m['msgs']:
                res.bad('sink:message-count', '%s has %d messages, model %d after %r' % (m['name'], len(c.messages()), m['msgs'], op))
            if set(c.db) != m['ids']:
                res.bad('sink:object-table', '%s has ids %r, model %r after %r' % (m['name'], sorted(c.db), sorted(m['ids']), op))
            if c.is_server() != m['role']:
                res.bad('sink:role', m['name'])
        if kind == 'open':
            newc = real[-1]
            if [(o.type, o.id, o.generation) for l in newc.db.values() for o in l] != [('wl_display', 1, 0)]:
                res.bad('sink:fresh-table', 'new connection starts with %r' % {i: len(l) for i, l in newc.db.items()})
            exp_new = sum(1 for l in new_out if session.NEW_LINE.match(l))
            if exp_new != 1:
                res.bad('sink:new-notice', '%r printed %r' % (op, new_out))
        ncl = sum(1 for l in new_out if session.CLOSED_LINE.match(l))
        res.evals += 1
        return ncl


def sink_machine(col, stage, tier):
    from hypothesis import strategies as st
    from hypothesis.stateful import RuleBasedStateMachine, rule, precondition
    IDS = ['a', 'b', 'c', '17', 'gdb_conn:0x55']

    class SinkMachine(RuleBasedStateMachine):
        def __init__(self):
            super().__init__()
            col.check_deadline()
            self.ex = SinkExec()
            self.case = dict(ops=[])
            self.res = Result()
            self.res.evals = 0
            self.reported = False

        def _do(self, op):
            self.case['ops'].append(op)
            n0 = len(self.res.discs)
            was_open = op[1] in self.ex.open
            ncl = self.ex.apply(op, self.res)
            exp_closed = 1 if (op[0] in ('close', 'open') and was_open) else 0
            if ncl is not None and ncl != exp_closed:
                self.res.bad('sink:closed-notice', '%r printed %d Closed notices, expected %d' % (op, ncl, exp_closed))
            if col.shrink_bucket is not None and any(b == col.shrink_bucket for b, _ in self.res.discs[n0:]):
                self.reported = True
                stage.finish(self.case, self.res)
                col.add(stage, self.case, self.res)

        @rule(cid=st.sampled_from(IDS), role=st.sampled_from([None, True, False]))
        def open(self, cid, role): self._do(['open', cid, role])

        @rule(cid=st.sampled_from(IDS))
        def close(self, cid): self._do(['close', cid])

        @precondition(lambda self: len(self.ex.open) > 0)
        @rule(data=st.data(), oid=st.integers(2, 5))
        def message(self, data, oid):
            cid = data.draw(st.sampled_from(sorted(self.ex.open)))
            self._do(['message', cid, oid])

        @rule(name=st.sampled_from(['A', 'B', 'C', 'all', 'all', 'D', 'Z', 'Q', 'b', 'nope']))
        def select(self, name): self._do(['select', name])

        @rule()
        def rows(self): self._do(['rows', None])

        def teardown(self):
            if self.reported or not self.case['ops']:
                return
            stage.finish(self.case, self.res)
            col.add(stage, self.case, self.res)

    return SinkMachine


class Sink(Stage):
    name = 'sink-machine'
    kind = 'machine'

    def examples(self, tier):
        return 200 if tier == 'quick' else 14 * 1500

    def steps(self, tier):
        return 40 if tier == 'quick' else 80

    def machine(self, col, tier):
        return sink_machine(col, self, tier)

    def finish(self, case, res):
        ops = case['ops']
        closed = set()
        reopen = False
        for op in ops:
            if op[0] == 'close': closed.add(op[1])
            if op[0] == 'open' and op[1] in closed: reopen = True
        res.nontrivial = reopen
        if reopen: res.label('reopen-after-close')
        if any(op[0] == 'open' for op in ops) and len({op[1] for op in ops if op[0] == 'open'}) < sum(1 for op in ops if op[0] == 'open'):
            res.label('open-same-id-twice')
        res.sample = ops[:25]

    def execute(self, case):
        res = Result()
        res.evals = 0
        ex = SinkExec()
        for op in case['ops']:
            was_open = op[1] in ex.open
            ncl = ex.apply(op, res)
            exp_closed = 1 if (op[0] in ('close', 'open') and was_open) else 0
            if ncl is not None and ncl != exp_closed:
                res.bad('sink:closed-notice', '%r printed %d Closed notices, expected %d' % (op, ncl, exp_closed))
        self.finish(case, res)
        return res


class C04(Prop):
    id = 'C04'
    rule = ('isolation: 1-4 independently generated per-connection histories with colliding ids, two drawn merge orders (own order preserved), '
            'rendered with <conn> tags; names by first appearance, one New notice before the first line and one Closed notice at the end, '
            '`connection` rows; projection of each connection (lines without times, object table with alive flags, role, count) must equal the '
            'run of that connection alone, the other merge order and the reference model. sink-machine: Hypothesis rule-based machine over '
            'open/message/close on the connection-id sink vs a model. non-trivial = >= 2 connections sharing an id with >= 1 switch between '
            'consecutive lines / a re-open after close; distinct by SHA-1 of the case. many-tags: logs of 703..1040 and of 18 300 tags through the line loop: names in shortlex order, one New and one Closed notice each, per-connection record, `connection NAME` + `list` shows that connection only. The sink machine also issues the `connection` command without argument and compares the rows (marker of the selected connection, name, role, state, count) with the model; names that denote no connection are refused and leave the selection alone.')
    assumptions = ['projections exclude time-valued text (relative to the global first message: C16)',
                   'the role is asserted against the model only when the first message is get_registry; otherwise alone-vs-interleaved only']
    stages = [Isolation(), ManyTags(), Sink()]


PROP = C04()
