"""C07 - argument names, nil types and enum labels come from the protocol descriptions."""
import os, re, itertools, tempfile, shutil
from .. import env, protoxml, wire, session
from ..runner import Prop, Stage, Result

ROOTS = ['/usr/share/wayland', '/usr/share/wayland-protocols']
_D = None


def descs():
    global _D
    if _D is None:
        import collections
        d = collections.defaultdict(list)
        for root in ROOTS + [os.path.join(env.REPO, 'resources', 'protocols')]:
            if os.path.isdir(root):
                for n, l in protoxml.read_all(root).items():
                    d[n] += l
        _D = (d, protoxml.winners(d))
    return _D


decode = protoxml.decode


def dedup_entries(enum):
    # entries are keyed by name in any sensible reader; a repeated name keeps its first position, last value
    seen = {}
    for n, v in enum.entries:
        seen[n] = v
    return list(seen.items())


enum_candidates = protoxml.enum_candidates


def test_values(enum):
    vals = [v for _, v in enum.entries]
    out = set(vals) | {0, (max(vals) + 1) if vals else 1}
    sv = sorted(set(vals))
    for a, b in zip(sv, sv[1:]):
        if b - a > 1:
            out.add(a + 1)
            break
    if enum.bitfield:
        bits = sorted(set(vals))
        if len(bits) <= 10:
            for r in range(2, len(bits) + 1):
                for combo in itertools.combinations(bits, r):
                    x = 0
                    for c in combo:
                        x |= c
                    out.add(x)
        else:
            for i in range(len(bits)):
                for j in range(i + 1, len(bits)):
                    out.add(bits[i] | bits[j])
            x = 0
            for c in bits:
                x |= c
            out.add(x)
        free = 1
        allbits = 0
        for c in bits:
            allbits |= c
        while free & allbits:
            free <<= 1
        out.add(free)
        out.add(free | (bits[0] if bits else 0))
    else:
        out.add(-1)
    return sorted(out)


_HAND_TAGGED = None


def hand_tagged():
    """(interface, message, argument name) triples the tool itself tags with an enum after loading (load_all's fix-ups for
    descriptions that lack the attribute), read from the tool's source so that the list follows it"""
    global _HAND_TAGGED
    if _HAND_TAGGED is None:
        import re as _re
        src = open(os.path.join(env.REPO, 'core', 'wl', 'protocol.py')).read()
        _HAND_TAGGED = set(_re.findall(r"interfaces\['([^']+)'\]\.messages\['([^']+)'\]\.args\['([^']+)'\]\.enum\s*=", src))
    return _HAND_TAGGED


class Shipped(Stage):
    """exhaustive: every shipped interface x message x argument position; every enum-typed argument
    with all entry values, unions of bitfield entries, zero and values outside"""
    name = 'shipped-exhaustive'
    kind = 'enum'
    exhaustive = True

    def examples(self, tier):
        return 1

    def cases(self, tier):
        d, w = descs()
        return sorted(w)

    def execute(self, iface):
        from core.wl import protocol
        env.reset_globals()
        res = Result()
        res.evals = 0
        d, w = descs()
        cands = w[iface][0]
        failures = []
        ok_any = False
        nenum = 0
        for c in cands:
            bad = []
            for m in c.msgs:
                if iface == 'wl_registry' and m.name == 'bind':
                    for i in range(len(m.args)):
                        if protocol.get_arg_name(iface, m.name, i) is not None or protocol.look_up_enum(iface, m.name, i, 1) != []:
                            bad.append('wl_registry.bind is exempt but arg %d is described' % i)
                    continue
                for i, a in enumerate(m.args):
                    res.evals += 1
                    try:
                        nm = protocol.get_arg_name(iface, m.name, i)
                        itf = protocol.look_up_interface(iface, m.name, i)
                    except RuntimeError as e:
                        bad.append('%s.%s arg %d: %s' % (iface, m.name, i, e))
                        continue
                    if nm != a.name:
                        bad.append('%s.%s arg %d named %r, description says %r' % (iface, m.name, i, nm, a.name))
                    if itf != a.interface:
                        bad.append('%s.%s arg %d interface %r, description says %r' % (iface, m.name, i, itf, a.interface))
                    if a.enum is None and a.type in ('int', 'uint') and (iface, m.name, a.name) not in hand_tagged() and all(
                            (cc.msg(m.name) is None or i >= len(cc.msg(m.name).args) or cc.msg(m.name).args[i].enum is None) for cc in cands):
                        # no description declares an enum for it: it stays a bare number
                        for v in (0, 1, 272):
                            res.evals += 1
                            got = protocol.look_up_enum(iface, m.name, i, v)
                            if got != []:
                                bad.append('%s.%s arg %d (%s) carries no enum in any description but value %d is decoded as %r' % (iface, m.name, i, a.name, v, got))
                                break
                    if a.enum is not None and a.type in ('int', 'uint'):
                        ecs = enum_candidates(c, a.enum, w)
                        if not ecs:
                            continue
                        nenum += 1
                        vals = sorted(set(v for e in ecs for v in test_values(e)))
                        for v in vals:
                            res.evals += 1
                            got = protocol.look_up_enum(iface, m.name, i, v)
                            exps = [decode(e, v) for e in ecs]
                            exps += [[n for n in x] for x in ([decode(type('E', (), dict(bitfield=e.bitfield, entries=dedup_entries(e)))(), v) for e in ecs])]
                            if got not in exps:
                                bad.append('%s.%s arg %d (%s) value %d decoded %r, expected %r' % (iface, m.name, i, a.enum, v, got, exps[0]))
                                break
                # one past the last argument must not silently be described
            if not bad:
                ok_any = True
                break
            failures.append((c.path, bad))
        if not ok_any:
            kinds = set()
            for p, bad in failures:
                for b in bad:
                    kinds.add('undeclared-enum' if 'carries no enum' in b else 'enum-decode' if 'decoded' in b else ('arg-name' if 'named' in b else ('nil-interface' if 'interface' in b else 'lookup-error')))
            res.bad('shipped:' + '+'.join(sorted(kinds)), '%s agrees with none of its %d maximal-version descriptions: %s' % (
                iface, len(cands), '; '.join(failures[0][1][:3])))
        res.nontrivial = nenum > 0 or any(a.type == 'object' for c in cands for m in c.msgs for a in m.args)
        res.count('enum-typed-arguments', nenum)
        res.label('described-%d-times' % min(len(d[iface]), 3))
        if len(cands) > 1: res.label('tie-at-max-version')
        res.sample = dict(interface=iface, version=cands[0].version, messages=len(cands[0].msgs), enum_args=nenum)
        return res


class Pipeline(Stage):
    """every shipped message once through the full pipeline: name=value, value:label, null <iface> tokens;
    plus messages on interfaces the tool has no description for"""
    name = 'shipped-rendered'
    kind = 'enum'
    exhaustive = True

    def examples(self, tier):
        return 1

    def cases(self, tier):
        d, w = descs()
        return sorted(w) + ['__unknown_iface__', 'zz_not_a_protocol_v7']

    def execute(self, iface):
        env.reset_globals()
        res = Result()
        res.evals = 0
        d, w = descs()
        known = iface in w
        if known:
            cands = w[iface][0]
            msgs = cands[0].msgs
        else:
            cands = []
            M = type('M', (), {})
            msgs = []
        specs = [dict(conn=None, t_us=1000, sent=True, iface='wl_display', id=1, name='get_registry', args=[['new', 'wl_registry', 2]]),
                 dict(conn=None, t_us=2000, sent=True, iface='wl_registry', id=2, name='bind',
                      args=[['uint', 1], ['str', iface], ['uint', 1], ['new', None, 3]])]
        plan = []
        nid = 10
        t = 3000
        if known:
            for m in msgs:
                if iface == 'wl_registry' and m.name == 'bind':
                    continue
                if iface == 'wl_display' and m.name == 'delete_id':
                    continue
                args = []
                for a in m.args:
                    if a.type in ('int', 'uint'):
                        v = 1
                        if a.enum is not None:
                            ecs = enum_candidates(cands[0], a.enum, w)
                            if ecs and ecs[0].entries:
                                v = ecs[0].entries[-1][1]
                        args.append(['uint' if a.type == 'uint' else 'int', v])
                    elif a.type == 'fixed': args.append(['fixed', 384])
                    elif a.type == 'string': args.append(['str', 'x, y'])
                    elif a.type == 'array': args.append(['array', 4])
                    elif a.type == 'fd': args.append(['fd', 5])
                    elif a.type == 'object': args.append(['obj', a.interface, None])
                    elif a.type == 'new_id':
                        nid += 1
                        args.append(['new', a.interface or 'wl_x', (0xff000000 + nid) if m.is_event else nid])
                t += 1000
                plan.append((m, args))
                specs.append(dict(conn=None, t_us=t, sent=not m.is_event, iface=iface, id=3, name=m.name, args=args))
                # the same message again with other values of its enum-typed arguments: 0, one past the last entry, -1 for signed
                # ones, a union of bitfield entries (only for messages that create nothing)
                if any(a.type == 'new_id' for a in m.args):
                    continue
                for variant in range(3):
                    args2 = []
                    changed = False
                    for a, spec_a in zip(m.args, args):
                        if a.type in ('int', 'uint') and a.enum is not None:
                            ecs = enum_candidates(cands[0], a.enum, w)
                            vals = [v for _, v in ecs[0].entries] if ecs and ecs[0].entries else [1]
                            v = [0, max(vals) + 1, -1 if a.type == 'int' else (vals[0] | vals[-1])][variant]
                            args2.append([spec_a[0], v])
                            changed = True
                        else:
                            args2.append(list(spec_a))
                    if changed:
                        t += 1000
                        plan.append((m, args2))
                        specs.append(dict(conn=None, t_us=t, sent=not m.is_event, iface=iface, id=3, name=m.name, args=args2))
        else:
            for nm, args in (('frob', [['int', 5], ['str', 'a'], ['obj', 'wl_x', None], ['fixed', 256], ['fd', 1], ['array', 0]]), ('new', []), ('destroyed', [['uint', 1]])):
                t += 1000
                plan.append((None, args))
                specs.append(dict(conn=None, t_us=t, sent=True, iface=iface, id=3, name=nm, args=args))
        target_iface = iface if iface != 'wl_display' else iface
        tid = 3
        if iface == 'wl_display':
            # a second wl_display object cannot be bound; use the real one
            specs = specs[:1] + [dict(s, id=1) for s in specs[2:]]
            tid = 1
        s = session.run_history(specs, 'new')
        lines = [l for seg in s.segments if seg.kind == 'line' for l in seg.out_lines() if session.MSG_LINE.match(l)]
        skip = 1 if iface == 'wl_display' else 2
        if len(lines) != len(specs):
            res.bad('rendered:line-dropped', '%s: %d message lines for %d messages; err=%r' % (iface, len(lines), len(specs), s.err.buffer[:300]))
            return res
        for (m, args), spec, line in zip(plan, specs[skip:], lines[skip:]):
            res.evals += 1
            body = session.MSG_LINE.match(line).group(3)
            inner = body[body.index('(') + 1:body.rindex(')')]
            toks = inner.split(', ') if inner else []
            # strings contain ', ' on purpose: re-join
            fixed = []
            for tkn in toks:
                if fixed and fixed[-1].count("'") % 2 == 1:
                    fixed[-1] += ', ' + tkn
                else:
                    fixed.append(tkn)
            toks = fixed
            if len(toks) != len(args):
                res.bad('rendered:argcount', '%r shows %d arguments for %d' % (line, len(toks), len(args)))
                continue
            for i, (tok, a) in enumerate(zip(toks, args)):
                if m is None:
                    if '=' in tok.split("'")[0] or re.search(r'\d:[\w(]', tok):
                        res.bad('rendered:unknown-iface-decorated', '%r' % line)
                    if a[0] == 'obj' and tok != 'null ??':
                        res.bad('rendered:unknown-iface-decorated', '%r' % line)
                    continue
                okc = False
                why = ''
                for c in cands:
                    cm = c.msg(m.name)
                    if cm is None or i >= len(cm.args):
                        continue
                    pa = cm.args[i]
                    if not tok.startswith(pa.name + '='):
                        why = 'name %r expected' % pa.name
                        continue
                    val = tok[len(pa.name) + 1:]
                    if a[0] == 'obj':
                        exp = 'null ' + (pa.interface or '??')
                        if val != exp:
                            why = 'expected %r' % exp
                            continue
                    if a[0] in ('int', 'uint') and pa.enum is not None:
                        ecs = enum_candidates(c, pa.enum, w)
                        if ecs:
                            shown_v = a[1] & 0xffffffff if a[0] == 'uint' else a[1]
                            exps = [str(shown_v) + ':' + '&'.join(decode(e, shown_v)) for e in ecs]
                            if val not in exps:
                                why = 'expected %r' % exps[0]
                                continue
                    okc = True
                    break
                if not okc:
                    res.bad('rendered:token', '%r argument %d shown as %r (%s)' % (line, i, tok, why))
        # the same messages handed over the way the GDB backend builds them (nil arguments arrive with the interface the closure
        # declares, sent targets without interface, arrays decoded): names, nil types and labels must come out the same
        if known and not res.discs:
            from .. import tracker
            tr = tracker.Tracker('gdb-shaped')
            for spec, line in zip(specs, lines):
                try:
                    msg, rec = tr.apply(dict(spec))
                except Exception as e:
                    if not env.repo_frames(e.__traceback__):
                        raise
                    res.bad('rendered:gdb-shaped-crash', '%s: %s' % (type(e).__name__, e))
                    break
                a = session.MSG_LINE.match(line).group(3)
                b = str(msg)
                norm = lambda t: re.sub(r'\[[^\[\]]*\]', '[ARRAY]', t)
                res.evals += 1
                if norm(a) != norm(b):
                    res.bad('rendered:gdb-shaped-differs', 'log mode shows %r, the same message built as the GDB backend builds it shows %r' % (a, b))
                    break
        res.nontrivial = len(plan) > 0
        res.label('unknown-interface' if not known else 'known-interface')
        res.sample = dict(interface=iface, lines=lines[skip:skip + 3])
        return res


# ------------------------------------------------------------------------------------------------
# synthetic multi-version descriptions x every load order

def xml_of(filedesc):
    out = ['<?xml version="1.0" encoding="UTF-8"?>', '<protocol name="%s">' % filedesc['name']]
    for itf in filedesc['interfaces']:
        out.append('  <interface name="%s" version="%d">' % (itf['name'], itf['version']))
        for m in itf['messages']:
            out.append('    <%s name="%s">' % (m['kind'], m['name']))
            out.append('      <description summary="x">text</description>')
            for a in m['args']:
                attrs = 'name="%s" type="%s"' % (a['name'], a['type'])
                if a.get('interface'): attrs += ' interface="%s"' % a['interface']
                if a.get('enum'): attrs += ' enum="%s"' % a['enum']
                if a.get('allow_null'): attrs += ' allow-null="true"'
                out.append('      <arg %s/>' % attrs)
            out.append('    </%s>' % m['kind'])
        for e in itf['enums']:
            out.append('    <enum name="%s"%s>' % (e['name'], ' bitfield="true"' if e['bitfield'] else ''))
            for n, lit in e['entries']:
                out.append('      <entry name="%s" value="%s"/>' % (n, lit.replace('<', '&lt;')))
            out.append('    </enum>')
        out.append('  </interface>')
    out.append('</protocol>')
    return '\n'.join(out) + '\n'


IFACES = ['vf_alpha', 'vf_beta', 'vf_gamma']
MSGNAMES = ['frob', 'twist', 'new', 'configure', 'done']
ARGNAMES = ['x', 'y', 'serial', 'mode', 'flags', 'surface', 'id', 'name', 'width', 'other']
ENUMNAMES = ['mode', 'flags', 'error', 'state']
ENTRYNAMES = ['none', 'a', 'b', 'c', 'left', 'right', 'top', 'all', '1x', 'zero']


def gen_literal(d, v):
    k = d.int(0, 3)
    if k == 0: return str(v)
    if k == 1: return hex(v)
    if k == 2 and v > 0 and v & (v - 1) == 0:
        sh = v.bit_length() - 1
        return d.choice(['1 << %d' % sh, '1<<%d' % sh, '0x1 << %d' % sh, '1 <<  %d' % sh])
    return str(v)


def gen_iface(d, name, version):
    enums = []
    for en in d.subset(ENUMNAMES, 0, 3):
        bitfield = d.chance(0.5)
        entries = []
        vals_so_far = []
        names = d.subset(ENTRYNAMES, 1, 6)
        for n in names:
            if bitfield:
                v = d.choice([0, 1, 2, 4, 8, 16, 3, 6, 0x80000000]) if d.chance(0.9) else d.int(0, 255)
            else:
                v = d.choice([0, 1, 2, 3, 4, 5, 272, 273]) if d.chance(0.8) else d.int(0, 1000)
            if entries and d.chance(0.25):
                v = int(d.choice(vals_so_far))       # a second name for a value already named (alias entries)
            vals_so_far.append(v)
            entries.append([n, gen_literal(d, v)])
        enums.append(dict(name=en, bitfield=bitfield, entries=entries))
    msgs = []
    for mn in ([] if d.chance(0.12) else d.subset(MSGNAMES, 1, 4)):      # (an interface may consist of enums only)
        args = []
        for an in d.subset(ARGNAMES, 0, 5):
            t = d.choice(['int', 'uint', 'uint', 'fixed', 'string', 'object', 'new_id', 'array', 'fd'])
            a = dict(name=an, type=t)
            if t in ('object', 'new_id') and d.chance(0.8):
                a['interface'] = d.choice(IFACES + ['wl_surface'])
            if t == 'object' and d.chance(0.5):
                a['allow_null'] = True
            if t in ('int', 'uint') and d.chance(0.6):
                if d.chance(0.3):
                    a['enum'] = d.choice(IFACES) + '.' + d.choice(ENUMNAMES)
                elif enums and d.chance(0.6):
                    a['enum'] = d.choice(enums)['name']      # one this description does define
                else:
                    a['enum'] = d.choice(ENUMNAMES)
            args.append(a)
        msgs.append(dict(kind=d.choice(['request', 'event']), name=mn, args=args))
    return dict(name=name, version=version, messages=msgs, enums=enums)


class Synthetic(Stage):
    name = 'synthetic-versions'

    def examples(self, tier):
        return 150 if tier == 'quick' else 14 * 1200

    def gen(self, d, tier):
        nfiles = d.int(1, 4)
        versions = {n: d.perm(range(1, 7))[:nfiles] for n in IFACES}     # distinct versions per interface across files
        files = []
        for k in range(nfiles):
            itfs = []
            for n in IFACES:
                if d.chance(0.75) or (k == 0 and n == IFACES[0]):
                    itfs.append(gen_iface(d, n, versions[n][k]))
            files.append(dict(name='proto%d' % k, interfaces=itfs))
        return dict(files=files)

    def execute(self, case):
        from core.wl import protocol
        from core.output import Output, stream
        env.reset_globals(protocols=False)
        env._loaded['protocols'] = False       # shipped set must be reloaded by whoever needs it next
        res = Result()
        res.evals = 0
        files = case['files']
        tmp = tempfile.mkdtemp(prefix='wdv-c07-')
        try:
            paths = []
            for k, f in enumerate(files):
                p = os.path.join(tmp, 'f%d.xml' % k)
                open(p, 'w').write(xml_of(f))
                paths.append(p)
            # oracle: highest version of each interface (independent reader)
            best = {}
            for p in paths:
                for n, l in protoxml.read_all(os.path.dirname(p)).items():
                    pass
            allp = protoxml.read_all(tmp)
            for n, l in allp.items():
                best[n] = max(l, key=lambda i: i.version)
            out = Output(False, False, stream.Null(), stream.Null())
            answers = None
            orders = list(itertools.permutations(range(len(paths))))
            differs_last = len({o[-1] for o in orders}) > 1 and any(len(l) >= 2 for l in allp.values())
            for order in orders:
                protocol.dump_all()
                for k in order:
                    protocol.load(paths[k], out)
                ans = {}
                for n, pi in sorted(best.items()):
                    for m in pi.msgs:
                        for i, a in enumerate(m.args):
                            res.evals += 1
                            try:
                                nm = protocol.get_arg_name(n, m.name, i)
                                itf = protocol.look_up_interface(n, m.name, i)
                            except RuntimeError as e:
                                res.bad('synthetic:highest-version-not-loaded', 'order %r: %s.%s arg %d: %s' % (order, n, m.name, i, e))
                                continue
                            if (nm, itf) != (a.name, a.interface):
                                res.bad('synthetic:wrong-version-or-position', 'order %r: %s(v%d).%s arg %d is (%r, %r), highest version says (%r, %r)' % (
                                    order, n, pi.version, m.name, i, nm, itf, a.name, a.interface))
                            ans[(n, m.name, i)] = (nm, itf)
                            if a.enum is not None and a.type in ('int', 'uint'):
                                parts = a.enum.split('.')
                                eo = best.get(parts[-2]) if len(parts) > 1 else pi
                                en = eo.enums.get(parts[-1]) if eo is not None else None
                                vals = test_values(en) if en is not None else [0, 1, 3]
                                for v in vals[:40]:
                                    got = protocol.look_up_enum(n, m.name, i, v)
                                    if en is None:
                                        exp = []
                                    else:
                                        e2 = type('E', (), dict(bitfield=en.bitfield, entries=dedup_entries(en)))()
                                        exp = decode(e2, v)
                                    res.evals += 1
                                    if got != exp:
                                        res.bad('synthetic:enum-decode', 'order %r: %s.%s arg %d enum %s value %d -> %r, expected %r' % (
                                            order, n, m.name, i, a.enum, v, got, exp))
                                    ans[(n, m.name, i, v)] = got
                if answers is None:
                    answers = ans
                elif ans != answers:
                    res.bad('synthetic:load-order-dependence', 'order %r answers differently from order %r' % (order, orders[0]))
            protocol.dump_all()
        finally:
            shutil.rmtree(tmp, ignore_errors=True)
        multi = any(len(l) >= 2 for l in allp.values())
        res.nontrivial = multi and len(files) >= 2
        res.label('files=%d' % len(files))
        if multi: res.label('interface-with>=2-versions')
        res.sample = dict(files=[[(i['name'], i['version']) for i in f['interfaces']] for f in files])
        return res


class ArrayElements(Stage):
    """array arguments whose contents are known (GDB mode decodes them): element j of the array at argument position i
    is decorated exactly as argument i would be - exhaustive over the shipped messages that have an array argument"""
    name = 'array-elements'
    kind = 'enum'
    exhaustive = True

    def examples(self, tier):
        return 1

    def cases(self, tier):
        d, w = descs()
        out = []
        for n, (cands, _) in sorted(w.items()):
            for m in cands[0].msgs:
                for i, a in enumerate(m.args):
                    if a.type == 'array':
                        out.append([n, m.name, i, len(m.args)])
        return out

    def execute(self, case):
        from core import wl
        from core.wl import protocol
        from core import ConnectionManager
        env.reset_globals()
        res = Result()
        iface, mname, index, nargs = case
        cm = ConnectionManager()
        conn = cm.open_connection(0.0, 'x', False)
        obj = conn.create_object(0.0, conn.wl_display(), 3, iface)
        values = [0, 1, 2, 3, 4, 5, 6, 7]
        args = []
        for k in range(nargs):
            args.append(wl.Arg.Array([wl.Arg.Int(v) for v in values]) if k == index else wl.Arg.Int(0))
        msg = wl.Message(0.0, obj, False, mname, tuple(args))
        try:
            conn.message(msg)
        except RuntimeError:
            pass
        arr = msg.args[index]
        res.evals = len(values)
        for e in arr.values:
            try:
                exp = protocol.look_up_enum(iface, mname, index, e.value)
            except RuntimeError:
                exp = []
            if list(getattr(e, 'labels', [])) != list(exp) or e.name is not None:
                res.bad('array-element-decoration', '%s.%s argument %d: element %d decorated %r (name %r), the argument\'s own enum gives %r' % (
                    iface, mname, index, e.value, getattr(e, 'labels', []), e.name, exp))
                break
        res.nontrivial = True
        res.label('array-argument')
        res.sample = case
        return res


class InHistories(Stage):
    """decoration is a function of the message alone: in generated histories - messages newer than the descriptions or with more
    arguments than described next to ordinary ones, the same message again later, nil arguments, enum arguments, objects never
    seen created and their delete_id - every shown line carries exactly the names, nil types and labels the descriptions give
    that message, whatever was decoded before it"""
    name = 'in-histories'

    def examples(self, tier):
        return 200 if tier == 'quick' else 14 * 1500

    def gen(self, d, tier):
        from .. import histgen
        prof = dict(reuse=0.6, weights=dict(newer=22, repeat=10, message=40, enum=16, nulls=12, null_strings=8, bind=12, delete=8, sync=4, midsession=8, title=6))
        return dict(dialect=d.choice(['new', 'old']), specs=histgen.history(d, nconn=d.int(1, 2), nmsg=d.int(6, 30), profile=prof))

    def execute(self, case):
        from .. import tracker
        tr, full = tracker.run_history(case['specs'], [tracker.check_attribution], case.get('dialect', 'new'))
        res = Result()
        res.evals = full.evals
        for b, msg in full.discs:
            if b.startswith('rendered-line') or b.startswith('crash:'):
                res.bad('history:' + b, msg)      # (attribution itself is C02's business)
        names = [m['name'] for m in case['specs']]
        res.nontrivial = any(m['name'] in ('future_request', 'set_v99_thing', 'frob', 'new') for m in case['specs']) and len(names) >= 6
        res.label('dialect:' + case.get('dialect', 'new'))
        if res.nontrivial: res.label('message-newer-than-the-descriptions')
        res.sample = dict(lines=[wire.render(m, 'new') for m in case['specs'][:8]], n=len(case['specs']))
        return res


class InGdbHistories(Stage):
    """the same in GDB mode: the histories reach the tool as libwayland closures through the real plugin and extract.py on the
    gdb stand-in, dispatched from several threads (on a server's or an unclassified connection the plugin names such a message
    in a warning before it has been resolved - the line shown for it, then and in any later listing, is decorated all the same)"""
    name = 'in-gdb-histories'

    def examples(self, tier):
        return 100 if tier == 'quick' else 14 * 800

    def gen(self, d, tier):
        from .. import histgen
        prof = dict(reuse=0.6, no_unseen_registry=True, weights=dict(repeat=10, message=44, enum=22, nulls=12, null_strings=8, bind=12, delete=8, sync=4, title=6, server_event=8))
        return dict(specs=histgen.history(d, nconn=d.int(1, 2), nmsg=d.int(6, 30), tagged=True, profile=prof),
                    threads=[d.choice([1, 1, 2, 3]) for _ in range(d.int(1, 6))])

    def execute(self, case):
        from .. import tracker
        res = Result()
        res.evals = 0
        full = Result()
        full.evals = 0
        tr = tracker.GdbTracker('', case.get('threads'))
        try:
            for spec in case['specs']:
                try:
                    msg, rec = tr.apply(spec)
                except tracker.GdbModeLost as e:
                    res.bad('gdb-history:message-lost', str(e))
                    break
                tracker.check_attribution(tr, msg, rec, full, ':gdb-mode')
                res.evals += 1
        finally:
            tr.close()
        for b, msg in full.discs:
            if b.startswith('rendered-line') or b.startswith('crash:'):
                res.bad('gdb-history:' + b, msg)
        off = any(t != 1 for t in case.get('threads') or [])
        res.nontrivial = off and len(case['specs']) >= 6
        if off: res.label('several-threads')
        res.sample = dict(lines=[wire.render(m, 'new') for m in case['specs'][:8]], threads=case.get('threads'))
        return res


class InstalledElsewhere(Stage):
    """where the tool happens to be installed must not matter: the working tree is copied (without .git) to scratch locations of
    different shapes - below a hidden directory as under ~/.local/share, a path with a blank, a path with dots - and the same
    described log is shown from there: names, nil types and enum labels are the ones the tree in place gives"""
    name = 'installed-elsewhere'

    def examples(self, tier):
        return 4 if tier == 'quick' else 14

    def gen(self, d, tier):
        from .. import histgen
        specs = histgen.history(d, nconn=1, nmsg=d.int(8, 24), profile=dict(reuse=0.5, weights=dict(bind=16, message=50, enum=24, nulls=10, sync=4, delete=6)))
        return dict(specs=specs, where=d.choice([['home', '.local', 'share', 'wayland-debug'], ['.cache', 'wd'], ['work dir', 'wayland debug'], ['a.b', '.c', 'wd'],
                                                 ['opt', 'wayland-debug-0.1.2']]))

    def execute(self, case):
        import subprocess
        from .. import cli
        res = Result()
        res.evals = 2
        text = '\n'.join(wire.render(m, 'new') for m in case['specs']) + '\n'
        with cli.Scratch() as sc:
            log = sc.write('in.log', text)
            rc0, out0, err0 = cli.run_main(['-C', '-l', log], stdin=b'q\n')
            dst = sc.path(os.path.join(*case['where']))
            os.makedirs(os.path.dirname(dst), exist_ok=True)
            shutil.copytree(env.REPO, dst, ignore=shutil.ignore_patterns('.git', '__pycache__', '.pytest_cache', '.mypy_cache'))
            try:
                r = subprocess.run([cli.PY, os.path.join(dst, 'main.py'), '-C', '-l', log], input=b'q\n', stdout=subprocess.PIPE, stderr=subprocess.PIPE,
                                   env=cli.base_env(None), timeout=120, cwd=sc.dir)
                rc1, out1 = r.returncode, r.stdout
            except subprocess.TimeoutExpired:
                res.label('timeout(inconclusive)')
                return res
        if rc0 is None:
            res.label('timeout(inconclusive)')
            return res
        if rc1 != rc0:
            res.bad('installed-elsewhere:exit-status', 'from %s: exit %r, in place %r' % ('/'.join(case['where']), rc1, rc0))
        if out1 != out0:
            a, b = out0.decode('utf-8', 'replace').split('\n'), out1.decode('utf-8', 'replace').split('\n')
            k = next((i for i, (x, y) in enumerate(zip(a, b)) if x != y), min(len(a), len(b)))
            res.bad('installed-elsewhere:display', 'installed under .../%s the same log reads differently, line %d: in place %r, from there %r' % (
                '/'.join(case['where']), k, a[k] if k < len(a) else None, b[k] if k < len(b) else None))
        res.nontrivial = b'=' in out0
        res.label('location:' + ('hidden-directory' if any(p.startswith('.') for p in case['where']) else 'blank-in-path' if any(' ' in p for p in case['where']) else 'other'))
        res.sample = dict(where=case['where'], lines=text.split('\n')[:4])
        return res


class C07(Prop):
    id = 'C07'
    rule = ('shipped-exhaustive: every shipped interface (one case each) x message x argument position: get_arg_name / look_up_interface / '
            'look_up_enum (all entry values, unions of bitfield entries, 0, values outside) against an independent XML reader; all answers of '
            'an interface must come from one maximal-version description. shipped-rendered: every shipped message once through the full '
            'pipeline (name=value, value:label, null <iface> tokens) plus unknown interfaces (undecorated, not dropped). synthetic-versions: '
            'generated sets of 1-4 XML files with overlapping interface names at distinct versions, loaded in every permutation. non-trivial = '
            'interface with an enum-typed or object argument / set with an interface at >= 2 versions; distinct by SHA-1 of the case. installed-elsewhere: the working tree copied to scratch locations (below a hidden directory, with a blank, with dots) must show a described log exactly like the tree in place. in-histories: generated histories (messages newer than the descriptions or longer than described next to ordinary ones, repeats, nil objects and nil strings, enum arguments, objects never seen created and their delete_id): every shown line carries exactly the names, nil types and labels the descriptions give that message, whatever was decoded before.')
    assumptions = ['protoxml.py (own ElementTree reader and literal evaluator) is the oracle',
                   'ties at equal maximal version: any one description is accepted, consistently per interface',
                   'arguments that carry no enum attribute in the XML (hand-tagged by the tool) are not judged']
    stages = [Shipped(), Pipeline(), ArrayElements(), Synthetic(), InHistories(), InGdbHistories(), InstalledElsewhere()]


PROP = C07()
