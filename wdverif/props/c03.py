"""C03 - object lifetimes: alive from creation to delete_id, never resurrected."""
from .. import histgen, tracker, model
from ..runner import Prop, Stage, Result

CHECKS = [tracker.check_lifetimes]
PROFILE = dict(reuse=0.7, server_reuse=0.6, weights=dict(repeat=4, newer=4, midsession=5, server_retype=6, delete=24, bind=12, message=36, server_event=18, deep=4, sync=6, long_line=2, dead_creates=4))


def nontrivial(specs):
    """a delete_id of an object created >= 1 message earlier with a non-zero time gap, or a server-range reuse"""
    W = model.MWorld()
    for m in specs:
        if m.get('destroy'):
            W.close(m['conn'])
            continue
        rec = W.step(m)
        if rec['implicit']:
            return True
        d = rec['destroyed']
        if d is not None and d.created is not None and d.destroyed - d.created > 0:
            return True
    return False


class _Base(Stage):
    def finish(self, case, res):
        specs = case['specs']
        for l in histgen.labels_of(specs):
            res.label(l)
        sides = set()
        for m in specs:
            if m.get('destroy'):
                continue
            if m['name'] == 'delete_id' and m['iface'] == 'wl_display':
                sides.add('delete_id-sent(server-log)' if m['sent'] else 'delete_id-received(client-log)')
        for s in sides:
            res.label(s)
        res.nontrivial = nontrivial(specs)
        from .. import wire
        res.sample = dict(dialect=case.get('dialect', 'new'), lines=[wire.render(m, case.get('dialect', 'new')) if not m.get('destroy') else '(connection %s destroyed)' % m['conn'] for m in specs[:12]], n=len(specs))

    def execute(self, case):
        tr, res = tracker.run_history(case['specs'], CHECKS, case.get('dialect', 'new'))
        before = [str(m) for m in tr.msgs]
        tracker.check_after_close(tr, res)
        # the same log through the tool's line loop, its last line not terminated by a newline (a log can end like that): every line,
        # the last one included, reads as it did above - a final delete_id is annotated, a final creation exists
        from .. import session, wire
        dialect = case.get('dialect', 'new')
        lines = [wire.render(m, dialect if dialect != 'old-comma' else 'old', comma=(dialect == 'old-comma')) for m in case['specs']]
        s = session.Session()
        s.run([['line', l] for l in lines[:-1]] + [['raw', lines[-1]]])
        got = [str(m) for m in s.messages()]
        if got != before:
            k = next((i for i, (a, b) in enumerate(zip(before, got)) if a != b), min(len(before), len(got)))
            res.bad('line-loop:unterminated-last-line' if k >= len(before) - 1 else 'line-loop:differs', 'line %d of %d: directly %r, through the line loop %r' % (
                k, len(before), before[k] if k < len(before) else None, got[k] if k < len(got) else None))
        self.finish(case, res)
        return res


class Machine(_Base):
    name = 'machine'
    kind = 'machine'

    def examples(self, tier):
        return 240 if tier == 'quick' else 14 * 2000

    def steps(self, tier):
        return 50 if tier == 'quick' else 120

    def machine(self, col, tier):
        return tracker.make_machine(col, self, tier, CHECKS, profile=PROFILE,
                                    kinds=('message', 'delete', 'bind', 'server_event', 'sync', 'deep', 'newer', 'retype', 'midsession', 'server_retype', 'repeat'))


class Histories(_Base):
    """whole generated histories (delete/reuse-heavy weights), both dialects and the comma locale"""
    name = 'histories'
    kind = 'given'

    def examples(self, tier):
        return 120 if tier == 'quick' else 14 * 1000

    def gen(self, d, tier):
        specs = histgen.history(d, nconn=d.int(1, 3), nmsg=d.int(5, 45), profile=PROFILE)
        return dict(dialect=d.choice(['new', 'old']), specs=specs)


class GdbMode(_Base):
    """the same histories as libwayland closures through the real GDB plugin on the gdb stand-in, dispatched from several threads:
    lifetimes, annotations and lifespans must be the model's in GDB mode too"""
    name = 'gdb-mode'
    kind = 'given'

    def examples(self, tier):
        return 100 if tier == 'quick' else 14 * 800

    def gen(self, d, tier):
        prof = dict(reuse=0.8, server_reuse=0.6, weights=dict(delete=26, bind=12, message=34, server_event=14, sync=8, retype=6))
        if d.chance(0.65):
            specs = histgen.history(d, nconn=d.int(1, 2), nmsg=d.int(5, 36), tagged=True, profile=prof)
        else:
            specs = histgen.history_with_destroys(d, prof)      # libwayland destroys a connection, a later one lives at its address
        if len(specs) > 2 and d.chance(0.35):
            # the debugged program sits idle for more than 2^32 microseconds (GDB mode takes the time from an unbounded clock)
            k = d.int(1, len(specs) - 1)
            off = d.choice([4_294_967_296, 4_300_000_000, 7_200_000_000, 90_000_000_000])
            for m in specs[k:]:
                m['t_us'] += off
        return dict(dialect='gdb-shaped', specs=specs, threads=[d.choice([1, 1, 2, 3]) for _ in range(d.int(1, 6))])

    def execute(self, case):
        from ..runner import Result
        res = Result()
        res.evals = 0
        tr = tracker.GdbTracker('', case.get('threads'))
        try:
            for spec in case['specs']:
                if spec.get('destroy'):
                    tr.destroy(spec['conn'])
                    continue
                try:
                    msg, rec = tr.apply(spec)
                except tracker.GdbModeLost as e:
                    res.bad('gdb-mode:message-lost', str(e))
                    break
                for chk in CHECKS:
                    chk(tr, msg, rec, res, ':gdb-mode')
        finally:
            tr.close()
        self.finish(case, res)
        if any(t != 1 for t in case.get('threads') or []): res.label('several-threads')
        return res


class LongSessions(Stage):
    """thousands of messages: an id created and destroyed up to 1500 times in a row, sessions lasting long enough for large
    times; lifetimes, annotations and lifespans compared around the letter boundaries, every 97th step and at the end"""
    name = 'long-sessions'
    kind = 'given'

    def examples(self, tier):
        return 10 if tier == 'quick' else 14 * 12

    def gen(self, d, tier):
        return dict(dialect=d.choice(['new', 'old']), template=histgen.gen_long_template(d))

    def execute(self, case):
        specs = histgen.expand_long(case['template'])
        tr, res = tracker.run_long_history(specs, CHECKS, case.get('dialect', 'new'))
        tracker.check_after_close(tr, res)
        t = case['template']
        res.nontrivial = t['cycles'] >= 27 and t['gap'] > 0
        res.label('incarnations>=703' if t['cycles'] >= 703 else 'incarnations>=27')
        res.label('delete_id-sent(server-log)' if t['side'] == 'server' else 'delete_id-received(client-log)')
        res.sample = dict(template=t, n=len(specs))
        return res


class C03(Prop):
    id = 'C03'
    rule = ('Hypothesis rule-based machine (and whole generated histories) over client- and server-side logs with non-decreasing microsecond '
            'timestamps; after every step: alive set per connection = model, no object alive again once seen dead, at most one alive per id, '
            'create/destroy times, destroyed annotation exactly on delete_id lines with the model\'s object and exact lifespan (+-1 last digit), '
            'implicit destruction of reused server-range ids. non-trivial = history with a delete_id of an object created earlier at an '
            'earlier time, or a server-range reuse; distinct by SHA-1 of the spec list. long-sessions: templates expanded to thousands of messages (an id through up to 1500 incarnations), same comparisons around the letter boundaries, every 97th step, the last 60 and after close.')
    assumptions = ['well-formed histories as constructed by histgen; timestamps non-decreasing, no 32-bit wrap-around',
                   'lifespans: exact integer microseconds in the model; shown value may differ by 1 in the last printed digit']
    stages = [Machine(), Histories(), LongSessions(), GdbMode()]


PROP = C03()
