"""C10 - GDB halts the program at a message iff it matches the breakpoint matcher."""
from .. import env, gdbsim, pluginmachine as pm, histgen, session, wire
from ..runner import Prop, Stage, Result

WEIGHTS = dict(delete=10, bind=10, message=42, server_event=6, sync=14, enum=4, title=6, retype=2, appid=10)


class Machine(Stage):
    name = 'plugin-machine'
    kind = 'machine'

    def examples(self, tier):
        return 450 if tier == 'quick' else 14 * 2500

    def steps(self, tier):
        return 40 if tier == 'quick' else 80

    def machine(self, col, tier):
        return pm.make_machine(col, self, tier, True, False, WEIGHTS)

    def finish(self, case, res):
        ops = case['ops']
        halted = res.counters.get('halted', 0)
        running = res.counters.get('left-running', 0)
        bp_change = any(o[0] == 'cmd' and pm.resolve_command((o[1][2:] + ' ' + o[2]).split()[0] if o[1] not in ('wl', 'w', 'wayland') else (o[2].split() or [''])[0]) == 'breakpoint'
                        for o in ops)
        other_cmd = any(o[0] == 'cmd' for o in ops)
        res.nontrivial = halted >= 1 and running >= 1 and (bp_change or case.get('break_text')) and other_cmd
        if halted: res.label('some-message-halts')
        if running: res.label('some-message-runs-on')
        if bp_change: res.label('breakpoint-changed')
        if any(o[0] == 'cmd' and 'connection' in (o[1] + ' ' + o[2]) for o in ops): res.label('selection-command')
        if len({o[1] for o in ops if o[0] == 'msg'}) > 1: res.label('multi-connection')
        res.sample = dict(break_text=case.get('break_text'), ops=[[o[0], o[1], o[2]] + ([wire.render(dict(
            conn=None, t_us=o[3]['t_us'], sent=o[3]['sent'], iface=o[3]['target_iface'], id=o[3]['sender_id'], name=o[3]['name'], args=[]), 'new')] if o[0] == 'msg' else [])
            for o in ops[:14]])

    def execute(self, case):
        res = pm.replay(case, True, False)
        self.finish(case, res)
        return res


class Prompt(Stage):
    """file/run mode: the terminal UI keeps prompting until resume or quit"""
    name = 'prompt-loop'

    def examples(self, tier):
        return 300 if tier == 'quick' else 14 * 2000

    def gen(self, d, tier):
        cmds = []
        for _ in range(d.int(0, 8)):
            cmds.append(d.choice(['help', 'list', 'filter wl_display', 'breakpoint .sync', 'connection', 'connection A', 'matcher x', 'frob', '', 'l ~ 2', 'b !', 'h resume',
                                  'help quit', 'filter', 'res x', 'wl list', 'w w help']))
        cmds.append(d.choice(['resume', 'r', 'quit', 'q', 'res', 'wl resume', 'wlquit', 'w r', 'resume now']))
        extra = [d.choice(['help', 'resume', 'quit']) for _ in range(d.int(0, 2))]
        specs = histgen.history(d, nconn=1, nmsg=d.int(0, 5)) if d.chance(0.5) else []
        return dict(cmds=cmds, extra=extra, specs=specs)

    def execute(self, case):
        from frontends.tui import TerminalUI
        res = Result()
        s = session.Session()
        s.run([['line', wire.render(m, 'new')] for m in case['specs']])
        script = list(case['cmds']) + list(case['extra'])
        prompts = []

        def input_func(prompt):
            prompts.append(prompt)
            if len(prompts) > len(script):
                raise EOFError('prompted beyond the script')
            return script[len(prompts) - 1]
        ui = TerminalUI(s.ctl, s.ctl, input_func)
        try:
            ui.run_until_stopped()
        except EOFError:
            res.bad('prompt-loop-does-not-end', 'still prompting after %r' % script)
            return res
        def denotes(text):
            parts = text.strip().split()
            while parts and parts[0] in ('w', 'wl'):
                parts = parts[1:]
            return pm.resolve_command(parts[0]) if parts else None
        want = next((i + 1 for i, c in enumerate(script) if denotes(c) in ('resume', 'quit')), None)
        if want is None:
            res.label('script-without-resume-or-quit')
            return res
        if len(prompts) != want:
            res.bad('prompt-count', 'prompted %d times for %r (first resume/quit is command %d)' % (len(prompts), script, want))
        if any(p != 'wl debug $ ' for p in prompts):
            res.label('other-prompt-text')
        res.nontrivial = want >= 2
        res.label('ends-with-' + str(denotes(script[want - 1])))
        res.sample = script
        return res


class RealGdb(Stage):
    """the halting decision end to end in the real gdb: a generated C mock of libwayland runs under gdb 13 with the unmodified
    plugin and a breakpoint matcher; the messages at which gdb actually halts the program must be those the model says"""
    name = 'real-gdb'

    def examples(self, tier):
        return 6 if tier == 'quick' else 14 * 30

    def gen(self, d, tier):
        gens, steps, t = {}, [], 0
        for _ in range(d.int(4, 20)):
            addr = d.int(0, 1)
            g = gens.get(addr)
            if g is None:
                g = gens[addr] = histgen.ConnGen(None, d.choice(['client', 'server']), dict(reuse=0.6, weights=WEIGHTS))
            t += histgen.next_gap(d)
            m = g.next(d)
            m['conn'] = None
            m['t_us'] = t
            P = histgen.protocols()
            decl = P[m['iface']].msg(m['name']) if m['iface'] in P and not (m['iface'] == 'wl_registry' and m['name'] == 'bind') else None
            steps.append(gdbsim.closure_of_message(m, g.side, addr, decl))
        bt = d.choice(['*', '* ! .delete_id', 'wl_display, wl_registry', '.sync, .bind, .get_registry', '* ! wl_callback', 'wl_*', '.new', 'wl_display ! .sync', 'B:'])
        return dict(steps=steps, break_text=bt)

    def execute(self, case):
        from .. import gdbreal, cli
        res = Result()
        with cli.Scratch() as sc:
            r = gdbreal.run_steps(case['steps'], sc, commands=['breakpoint ' + case['break_text']])
        if r['status'].startswith('skipped'):
            res.label('real-gdb-' + r['status'][:40])
            return res
        if r['status'] != 'ok':
            from ..runner import HarnessError
            raise HarnessError(r['status'])
        drv = gdbsim.Driver(break_text=case['break_text'])
        try:
            stops = [bool(drv.deliver(st)) for st in case['steps']]
        finally:
            drv.close()
        expected = [i + 1 for i, st in enumerate(stops) if st]
        res.evals = len(case['steps'])
        if len(r['records']) != len(case['steps']):
            res.bad('real-gdb:messages-seen', '%d of %d closures reached the plugin; gdb said %r' % (len(r['records']), len(case['steps']), r.get('gdb_output', '')[-300:]))
        elif r.get('halts') != expected:
            res.bad('real-gdb:halts', 'breakpoint %r: real gdb halted the program after messages %r, the plugin on the stand-in says %r' % (case['break_text'], r.get('halts'), expected))
        res.nontrivial = 0 < len(expected) < len(stops)
        res.label('real-gdb-ran')
        res.sample = dict(break_text=case['break_text'], halts=r.get('halts'), messages=[st['target_iface'] + '.' + st['name'] for st in case['steps']])
        return res


class Scenarios(Stage):
    """short scripted situations the free-running machine reaches too rarely to be relied on (bare-id, twins, star-after-exclusion, declined-quit), each with drawn details, run
    through the same executor and judged by the same model"""
    name = 'scenarios'
    KINDS = ['bare-id', 'twins', 'star-after-exclusion', 'declined-quit', 'blanks-in-string', 'refused-selection']

    def examples(self, tier):
        return 80 if tier == 'quick' else 14 * 400

    def gen(self, d, tier):
        from .. import runner
        return pm.scenario_case(d, d.choice(self.KINDS), WEIGHTS)

    def execute(self, case):
        res = pm.replay(case, True, False)
        res.nontrivial = True
        res.label('scenario:' + case.get('scenario', '?'))
        res.sample = dict(scenario=case.get('scenario'), ops=[[o[0], o[1], o[2] if o[0] != 'msg' else o[3]['target_iface'] + '.' + o[3]['name']] for o in case['ops'][:14]])
        return res


class C10(Prop):
    id = 'C10'
    rule = ('plugin-machine: Hypothesis rule-based machine on the real Plugin + Controller over a gdb stand-in: rules = a generated message on '
            'one of 4 connection addresses from one of 3 threads (delivered through the plugin\'s own breakpoint stop()), a connection destroy, '
            'a user command (breakpoint changes incl. exclusions/*/!/malformed, connection selection, resume, quit, unrelated) through the '
            'plugin\'s gdb.Command objects; after every step stop() must be True iff the message matches the accumulated breakpoint (model of '
            'C12, atoms parsed independently) and belongs to the selection, with exactly one "Stopped at" notice naming it, and gdb must have '
            'executed `continue` iff the command was resume, `quit` iff quit, nothing otherwise. prompt-loop: TerminalUI with scripted input '
            'prompts exactly until the first resume/quit. real-gdb: a generated C mock of libwayland under the real gdb with the unmodified plugin and a '
            'breakpoint matcher; the messages after which gdb halts the program must be those for which stop() is True on the stand-in. non-trivial = history with a halting and a non-halting message, a breakpoint in force '
            'and >= 1 command; distinct by SHA-1 of the op list. A quit may be declined at gdb\'s confirmation (the stand-in raises `Not confirmed.`): the session goes on and halts are judged as before. Bare-id break texts are evaluated by the reference semantics.')
    assumptions = ['fakegdb stand-in for the gdb module; closures are converted from well-formed generated histories',
                   'breakpoint accumulation model shared with C12 (absorbed alternatives unspecified: skipped and counted)']
    stages = [Machine(), Scenarios(), Prompt(), RealGdb()]


gdbsim.install()
PROP = C10()
