"""C05 - a matcher selects exactly the messages its documented meaning says."""
from .. import env, histgen, session, wire, refmatch as rm
from ..runner import Prop, Stage, Result

PROFILE = dict(reuse=0.7, id_bases=[2, 2, 2, 8, 9, 89, 900, 4095], weights=dict(repeat=4, midsession=7, newer=4, nulls=12, delete=16, bind=14, message=46, server_event=10, deep=4, sync=6))


def universe(specs, dialect):
    s = session.run_history(specs, dialect)
    universe.last_session = s
    return s.messages()


def divergence(ast):
    """coarse description of the constructs present (bucket key component)"""
    return '+'.join(sorted(rm.features(ast))) or 'plain'


def gen_session_state(d, V, ms):
    """what the session did before each matcher is used: filter / breakpoint commands that extend the current matchers
    (with and without exclusions). What an expression selects must not depend on any of it."""
    types = [str(t) for t in V.get('type', [])[:6]] or ['wl_surface']
    names = ['.' + str(n) for n in V.get('name', [])[:6]] or ['.commit']
    out = []
    for k in range(len(ms)):
        cmds = []
        for _ in range(d.int(0, 2)):
            t = d.weighted([(3, 'excl'), (3, 'list'), (2, 'one'), (1, 'reset'), (2, 'earlier')])
            verb = d.choice(['filter ', 'filter ', 'breakpoint '])
            if t == 'excl': txt = '! ' + d.choice(types + names)
            elif t == 'list': txt = d.choice(types) + d.choice(names) + ', ' + d.choice(types + names)
            elif t == 'one': txt = d.choice(types) + d.choice(names)
            elif t == 'reset': txt = d.choice(['!', '*'])
            else: txt = rm.render(ms[d.int(0, len(ms) - 1)]['ast'], rm.Plain())
            cmds.append(verb + txt)
        out.append(cmds)
    return out


class Semantics(Stage):
    name = 'semantics'

    def examples(self, tier):
        return 330 if tier == 'quick' else 14 * 3300      # cases; each carries 6 matchers x ~25 messages

    def depth(self, tier):
        return 2 if tier == 'quick' else 3

    def gen(self, d, tier):
        specs = histgen.history(d, nconn=d.int(1, 3), nmsg=d.int(8, 32), profile=PROFILE)
        V = rm.vocab(specs)
        g = rm.Gen(d, V, self.depth(tier))
        ms = []
        for _ in range(6):
            ast = g.top()
            deco = [d.int(0, 99) for _ in range(d.int(4, 12))]
            ms.append(dict(ast=ast, deco=deco))
        return dict(dialect=d.choice(['new', 'old']), specs=specs, matchers=ms, before=gen_session_state(d, V, ms))

    def execute(self, case):
        from core import matcher
        from core.util import no_color
        res = Result()
        res.evals = 0
        msgs = universe(case['specs'], case.get('dialect', 'new'))
        nt = 0
        for mm in case['matchers']:
            ast = mm['ast']
            for cmd in (case.get('before') or [[]] * 6)[case['matchers'].index(mm)]:
                universe.last_session.ctl.process_command(cmd)      # session history: must not influence what an expression selects
                res.count('session-commands-before-use')
            plain = rm.render(ast, rm.Plain())
            deco = rm.render(ast, rm.Decor(mm['deco']))
            feats = rm.features(ast)
            parsed = {}
            for nm, txt in (('plain', plain), ('decorated', deco)):
                try:
                    parsed[nm] = matcher.parse(txt).simplify()
                except RuntimeError as e:
                    parsed[nm] = None
                    res.bad('documented-syntax-rejected:' + nm, '%r rejected: %s' % (txt, no_color(str(e)).splitlines()[0][:200]))
            if parsed['plain'] is None:
                continue
            # what a matcher selects depends on the matcher and the message only: a second instance evaluated in the opposite
            # order must agree (state kept inside a matcher object would show here)
            second = matcher.parse(plain).simplify()
            rev = {id(m): second.matches(m) for m in reversed(msgs)}
            selected = 0
            for m in msgs:
                exp = rm.ev(ast, m)
                got = parsed['plain'].matches(m)
                if rev[id(m)] != got:
                    res.bad('evaluation-order-dependence', '%r on %s: %r when evaluated oldest-first, %r newest-first' % (plain, no_color(str(m)), got, rev[id(m)]))
                res.evals += 1
                if exp is None:
                    res.count('unspecified-by-the-documentation')
                elif exp != got:
                    res.bad('meaning:%s:%s' % ('selects-too-much' if got else 'selects-too-little', divergence(ast)),
                            '%r on %s: implementation %r, documented meaning %r' % (plain, no_color(str(m)), got, exp))
                else:
                    res.count('determined-and-agreed')
                selected += bool(got)
                if parsed['decorated'] is not None and parsed['decorated'].matches(m) != got:
                    res.bad('decoration-changes-selection', '%r vs %r on %s' % (plain, deco, no_color(str(m))))
            # second observation point: the lines that appear under `list <expression>` (first two matchers of a case)
            if case['matchers'].index(mm) < 2 and '~' not in plain:
                ss = universe.last_session
                n0 = len(ss.out.buffer)
                ss.ctl.process_command('list ' + deco if parsed['decorated'] is not None else 'list ' + plain)
                listed = [l for l in ss.out.buffer[n0:].split('\n')[:-1] if session.MSG_LINE.match(l)]
                must = session.render_shown([m for m in msgs if rm.ev(ast, m) is True])
                may = set(session.render_shown([m for m in msgs if rm.ev(ast, m) is not False]))
                missing = [l for l in must if l not in listed]
                extra = [l for l in listed if l not in may]
                if missing or extra:
                    res.bad('list-vs-documented-meaning', '`list %s`: %d documented matches missing (%r), %d lines that must not match (%r)' % (
                        plain, len(missing), missing[:1], len(extra), extra[:1]))
                res.count('listings-compared')
            if ast == [[['star']], []] and selected != len(msgs):
                res.bad('star-not-everything', plain)
            if ast == [[['bang']], []] and selected != 0:
                res.bad('bang-not-nothing', plain)
            if 0 < selected < len(msgs) and len(feats) >= 2:
                nt += 1
            if 0 < selected < len(msgs):
                res.count('matchers-selecting-some-not-all')
            res.count('matchers')
            for f in feats:
                res.label('feature:' + f)
        if any(len(getattr(a, 'labels', [])) >= 2 for m in msgs for a in m.args):
            res.label('universe-with-multi-label-enum')
        if any(hasattr(a, 'labels') for m in msgs for a in m.args):
            res.label('universe-with-enum-label')
        res.nontrivial = nt > 0
        res.count('nontrivial-matchers', nt)
        res.sample = dict(matchers=[rm.render(mm['ast'], rm.Plain()) for mm in case['matchers'][:3]],
                          decorated=[rm.render(mm['ast'], rm.Decor(mm['deco'])) for mm in case['matchers'][:2]],
                          messages=len(case['specs']))
        return res


class EnumArgs(Semantics):
    """dedicated class: universes rich in enum-typed arguments (labels, bitfield unions) x argument-focused matchers"""
    name = 'enum-arguments'
    PROFILE = dict(reuse=0.5, weights=dict(newer=4, delete=6, bind=10, message=24, server_event=4, sync=2, enum=54))

    def examples(self, tier):
        return 300 if tier == 'quick' else 14 * 2500

    def gen(self, d, tier):
        specs = histgen.history(d, nconn=d.int(1, 2), nmsg=d.int(8, 28), profile=self.PROFILE)
        V = rm.vocab(specs)
        g = rm.Gen(d, V, self.depth(tier), focus='args')
        ms = [dict(ast=g.top(), deco=[d.int(0, 99) for _ in range(d.int(4, 12))]) for _ in range(6)]
        return dict(dialect=d.choice(['new', 'old']), specs=specs, matchers=ms, before=gen_session_state(d, V, ms))


class ValueKinds(Semantics):
    """dedicated class: arguments of different kinds with colliding values (Int 7, Fd 7, fixed 7.0, "7", object id 7)
    x value-focused matchers: cross-kind confusion of value matchers"""
    name = 'value-kinds'
    PROFILE = dict(reuse=0.5, weights=dict(newer=4, delete=4, bind=8, message=14, sync=6, kinds=60, enum=8))

    def examples(self, tier):
        return 170 if tier == 'quick' else 14 * 1700

    def gen(self, d, tier):
        specs = histgen.history(d, nconn=d.int(1, 2), nmsg=d.int(8, 24), profile=self.PROFILE)
        V = rm.vocab(specs)
        g = rm.Gen(d, V, self.depth(tier), focus='args')
        ms = [dict(ast=g.top(), deco=[d.int(0, 99) for _ in range(d.int(4, 12))]) for _ in range(6)]
        fl = sorted(V.get('float', []))
        close = [x for i, x in enumerate(fl) if (i > 0 and x - fl[i - 1] < 0.01) or (i + 1 < len(fl) and fl[i + 1] - x < 0.01)]
        if close:
            # two fixed-point values next to each other occur: a matcher naming one of them (alone, and as an exclusion)
            x = d.choice(close)
            arg = ['arg', None, ['float', x]]
            ms[-1] = dict(ast=[[['msg', None, None, None, [[arg], []]]], []] if d.chance(0.6) else [[['msg', None, None, None, [[], [arg]]]], []], deco=[d.int(0, 99) for _ in range(6)])
        return dict(dialect=d.choice(['new', 'old']), specs=specs, matchers=ms, before=gen_session_state(d, V, ms))


class NilArgs(Semantics):
    """dedicated class: universes rich in nil object arguments of several declared interfaces x matchers that name interfaces
    (a nil argument carries only its declared interface; matchers must judge every nil by its own)"""
    name = 'nil-arguments'
    PROFILE = dict(reuse=0.5, weights=dict(repeat=2, delete=6, bind=18, message=22, sync=2, nulls=50))

    def examples(self, tier):
        return 150 if tier == 'quick' else 14 * 1500

    def gen(self, d, tier):
        specs = histgen.history(d, nconn=d.int(1, 2), nmsg=d.int(10, 30), profile=self.PROFILE)
        V = rm.vocab(specs)
        niltypes = sorted({a[1] for m in specs for a in m['args'] if a[0] == 'obj' and a[2] is None and a[1]})
        g = rm.Gen(d, V, self.depth(tier), focus='args')
        ms = []
        for k in range(6):
            if niltypes and k < 3:
                t = d.choice(niltypes)
                ast = [[d.choice([['bare', None, ['type', t]], ['msg', None, None, None, [[['arg', None, ['word', t]]], []]]])], []]
                try:
                    rm.render(ast, rm.Plain())
                except Exception:
                    ast = g.top()
            else:
                ast = g.top()
            ms.append(dict(ast=ast, deco=[d.int(0, 99) for _ in range(d.int(4, 12))]))
        return dict(dialect=d.choice(['new', 'old']), specs=specs, matchers=ms, before=gen_session_state(d, V, ms))


class GdbUniverse(Stage):
    """universes in which connections come and go (GDB mode: libwayland destroys a connection, a later one lives at its address
    and gets the next name): the connection part of a matcher is evaluated against the names the reference model gives"""
    name = 'gdb-universe'

    def examples(self, tier):
        return 120 if tier == 'quick' else 14 * 1000

    def gen(self, d, tier):
        prof = dict(reuse=0.7, weights=dict(delete=14, bind=14, message=50, server_event=8, sync=10, nulls=6))
        specs = histgen.history_with_destroys(d, prof, nconn=d.int(2, 3))
        V = rm.vocab(specs)
        g = rm.Gen(d, V, 1)
        ms = []
        conns = V.get('conn') or ['A']
        for _ in range(6):
            ast = g.top()
            ms.append(dict(ast=ast))
        # plus plain connection-only and connection+type texts (every connection of the universe, and one that does not exist)
        texts = []
        for _ in range(d.int(2, 5)):
            c = d.choice(conns + [rm.letters(len(conns)).upper()])
            texts.append(d.choice(['%s:', '%s: *', '%s: wl_display', '%s: .sync', '[%s, A]: wl_display', '[* ! %s]:', '* ! %s:']) % c)
        return dict(specs=specs, matchers=ms, texts=texts)

    def execute(self, case):
        from core import matcher
        from core.util import no_color
        from .. import tracker
        res = Result()
        res.evals = 0
        tr = tracker.GdbTracker('')
        msgs, names = [], {}
        try:
            for spec in case['specs']:
                if spec.get('destroy'):
                    tr.destroy(spec['conn'])
                    continue
                try:
                    msg, rec = tr.apply(spec)
                except tracker.GdbModeLost as e:
                    res.bad('gdb-universe:message-lost', str(e))
                    return res
                msgs.append(msg)
                names[id(msg)] = rec['conn'].name
        finally:
            tr.close()
        rm.CONN_NAMES = names
        try:
            nt = 0
            for mm in case['matchers']:
                plain = rm.render(mm['ast'], rm.Plain())
                try:
                    p = matcher.parse(plain).simplify()
                except RuntimeError as e:
                    res.bad('documented-syntax-rejected:plain', '%r rejected: %s' % (plain, no_color(str(e)).splitlines()[0][:200]))
                    continue
                sel = 0
                for m in msgs:
                    exp, got = rm.ev(mm['ast'], m), p.matches(m)
                    res.evals += 1
                    sel += bool(got)
                    if exp is None:
                        res.count('unspecified-by-the-documentation')
                    elif exp != got:
                        res.bad('meaning:%s:%s' % ('selects-too-much' if got else 'selects-too-little', divergence(mm['ast'])),
                                '%r on %s (connection %s by the model): implementation %r, documented meaning %r' % (plain, no_color(str(m)), names[id(m)], got, exp))
                if 0 < sel < len(msgs):
                    nt += 1
            for text in case['texts']:
                try:
                    p = matcher.parse(text).simplify()
                except RuntimeError as e:
                    res.bad('documented-syntax-rejected:plain', '%r rejected: %s' % (text, no_color(str(e)).splitlines()[0][:200]))
                    continue
                for m in msgs:
                    exp = self.ev_text(text, m, names[id(m)])
                    got = p.matches(m)
                    res.evals += 1
                    if exp is not None and exp != got:
                        res.bad('meaning:connection-part:%s' % ('selects-too-much' if got else 'selects-too-little'),
                                '%r on %s (connection %s by the model): implementation %r, documented meaning %r' % (text, no_color(str(m)), names[id(m)], got, exp))
        finally:
            rm.CONN_NAMES = None
        closed = sum(1 for x in case['specs'] if x.get('destroy'))
        res.nontrivial = closed >= 1 and len(set(names.values())) >= 3
        if closed: res.label('connection-destroyed-and-address-reused')
        res.sample = dict(texts=case['texts'], matchers=[rm.render(mm['ast'], rm.Plain()) for mm in case['matchers'][:3]], messages=len(msgs))
        return res

    @staticmethod
    def ev_text(text, m, name):
        """the handful of connection-part forms of `texts`, evaluated by hand"""
        import re as _re
        on = lambda: m.obj.type
        mm = _re.fullmatch(r'(\w+):( \*)?', text)
        if mm: return name == mm.group(1)
        mm = _re.fullmatch(r'(\w+): \.sync', text)
        if mm: return name == mm.group(1) and m.name == 'sync'
        mm = _re.fullmatch(r'\[\* ! (\w+)\]:', text)
        if mm: return name != mm.group(1)
        mm = _re.fullmatch(r'\* ! (\w+):', text)
        if mm: return name != mm.group(1)
        return None      # forms involving an object part are left to the generated matchers


class C05(Prop):
    id = 'C05'
    rule = ('each case = a generated multi-connection history run through the real pipeline (the message universe) + 6 matcher ASTs drawn from '
            'the documented grammar against the vocabulary of that history (80% on-vocabulary atoms, 25% with a spliced *), rendered canonically '
            'and decorated (blanks/tabs at token boundaries, redundant brackets); parse(text).simplify().matches(m) is compared with a '
            'three-valued reference evaluator for every message (undetermined outcomes skipped and counted) and canonical vs decorated on all '
            'messages. A case is non-trivial when one of its matchers selects some but not all messages and has >= 2 syntactic features '
            '(list, exclusion, args, connection prefix, wildcard, new/destroyed, incarnation); distinct by SHA-1 of the case. gdb-universe: universes built through the GDB plugin in which connections are destroyed and re-created; connection parts are evaluated against the names the reference model gives the connections.')
    assumptions = ['reference semantics = DESIGN appendix A (written from matchers.md and the statement)',
                   'grammar bounds: no empty alternatives/exclusion lists, no * inside exclusions, no object labels as argument values, '
                   'string atoms without quotes/brackets/parentheses/commas/!']
    stages = [Semantics(), EnumArgs(), ValueKinds(), NilArgs(), GdbUniverse()]


PROP = C05()
