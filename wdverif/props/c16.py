"""C16 - displayed times are the log's times relative to the first message."""
import re
from .. import env, histgen, session, wire, scripts, refmatch as rm
from ..runner import Prop, Stage, Result

PROFILE = dict(reuse=0.6, weights=dict(repeat=4, newer=4, delete=16, bind=12, message=52, server_event=8, sync=8, enum=4))
TOK = re.compile(r'-?\d+\.\d{4}')


def units(s):
    neg = s.startswith('-')
    v = int(s.lstrip('-').replace('.', ''))
    return -v if neg else v


def render_lines(specs, dialect):
    if dialect == 'old-comma':
        return [wire.render(m, 'old', comma=True) for m in specs]
    return [wire.render(m, dialect) for m in specs]


def run(case, shift):
    specs = [dict(m, t_us=m['t_us'] + shift) for m in case['specs']]
    items = [['line', l] for l in render_lines(specs, case['dialect'])]
    for c in case['lists']:
        items.append(['cmd', c])
    s = session.Session(filter_text=case.get('filter'), break_text=case.get('brk'))
    segs = s.run(items)
    return s, segs, specs


def check_run(case, res, shift, tag):
    """exact-arithmetic oracle on one run; returns the list of output lines (for the shift comparison)"""
    s, segs, specs = run(case, shift)
    t0 = specs[0]['t_us']
    prev_shown_t = None
    k = 0
    all_lines = []
    classes = set()
    msgs = s.messages()
    hidden_between = False
    hidden_run = False
    for seg in segs:
        all_lines += seg.out_lines()
        if seg.kind != 'line':
            continue
        spec = specs[k]
        k += 1
        out = seg.out_lines()
        ml = [l for l in out if session.MSG_LINE.match(l)]
        sl = [l for l in out if session.SEP_LINE.match(l)]
        res.evals += 1
        if not ml:
            if sl:
                res.bad('separator-without-message' + tag, '%r printed %r' % (seg.text, sl))
            if prev_shown_t is not None:
                hidden_run = True
            continue
        exact = spec['t_us'] - t0
        shown = units(session.MSG_LINE.match(ml[0]).group(1))
        if abs(shown * 100 - exact) > 100 + 1:
            res.bad('time-column' + tag, '%r shown at %s, exact %d us after the first message' % (seg.text, session.MSG_LINE.match(ml[0]).group(1), exact))
        if prev_shown_t is not None:
            if hidden_run:
                hidden_between = True
            gap = spec['t_us'] - prev_shown_t
            if True:
                want = gap > 1_000_000      # exactly one second does not *exceed* a second
                if gap == 1_000_000: res.count('exactly-one-second-gaps-decided')
                classes.add('gap>1s' if want else 'gap<=1s')
                if bool(sl) != want:
                    res.bad(('separator-missing' if want else 'separator-spurious') + tag,
                            'before %r: gap to the previously shown message is %d us, separator lines %r' % (seg.text, gap, sl))
                elif sl:
                    if len(sl) != 1 or abs(units(session.SEP_LINE.match(sl[0]).group(1)) * 100 - gap) > 101:
                        res.bad('separator-value' + tag, '%r for an exact gap of %d us' % (sl, gap))
                    elif out.index(sl[0]) > out.index(ml[0]):
                        res.bad('separator-after-message' + tag, repr(out))
        elif sl:
            res.bad('separator-before-first-shown' + tag, repr(sl))
        prev_shown_t = spec['t_us']
        hidden_run = False
    # listings: separators within one listing only
    from core import matcher
    for seg in segs:
        if seg.kind != 'cmd' or not seg.text.startswith('list'):
            continue
        arg = seg.text[4:].strip()
        try:
            lm = matcher.parse(arg).simplify() if arg else (matcher.parse(case['filter']).simplify() if case.get('filter') else matcher.always)
        except RuntimeError:
            continue
        idx = [i for i, m in enumerate(msgs) if lm.matches(m)]
        out = seg.out_lines()
        body = [l for l in out[1:] if session.MSG_LINE.match(l) or session.SEP_LINE.match(l)]
        exp_msgs = session.render_shown([msgs[i] for i in idx])
        if [l for l in body if session.MSG_LINE.match(l)] != exp_msgs:
            res.count('listing-content-differs(C11)')
            continue
        pos = 0
        prev = None
        for i in idx:
            seps = []
            while pos < len(body) and session.SEP_LINE.match(body[pos]):
                seps.append(body[pos])
                pos += 1
            pos += 1
            if prev is not None:
                gap = specs[i]['t_us'] - specs[prev]['t_us']
                if True:
                    want = gap > 1_000_000
                    if bool(seps) != want:
                        res.bad(('list-separator-missing' if want else 'list-separator-spurious') + tag,
                                '`%s`: gap %d us between listed messages %d and %d, separators %r' % (seg.text, gap, prev, i, seps))
                    elif seps and (len(seps) != 1 or abs(units(session.SEP_LINE.match(seps[0]).group(1)) * 100 - gap) > 101):
                        res.bad('list-separator-value' + tag, '%r for %d us' % (seps, gap))
                    classes.add('list-gap>1s' if want else 'list-gap<=1s')
            elif seps:
                res.bad('list-separator-before-first' + tag, repr(seps))
            prev = i
            res.evals += 1
        if pos < len(body):
            res.bad('list-trailing-separator' + tag, repr(body[pos:]))
    if hidden_between:
        classes.add('hidden-between-shown')
    return all_lines, classes


def same_up_to_rounding(a, b):
    if len(a) != len(b):
        return 'different number of lines (%d vs %d)' % (len(a), len(b))
    for x, y in zip(a, b):
        if TOK.sub('#', x) != TOK.sub('#', y):
            return '%r vs %r' % (x, y)
        for p, q in zip(TOK.findall(x), TOK.findall(y)):
            if abs(units(p) - units(q)) > 1:
                return '%r vs %r (time %s vs %s)' % (x, y, p, q)
    return None


class Shifts(Stage):
    name = 'shifts'

    def examples(self, tier):
        return 600 if tier == 'quick' else 14 * 4000

    def gen(self, d, tier):
        nmsg = d.int(3, 28)
        specs = histgen.history(d, nconn=d.int(1, 2), nmsg=nmsg, profile=PROFILE, t0=d.choice([0, 1, 999, 1000, 123456, 59_999_999, 4_290_000_000]),
                                gaps=[0, 1, 13, 250, 999, 1000, 999_999, 1_000_000, 1_000_000, 1_000_001, 999_999, 500_000, 500_001, 2_500_000, 60_000_000])
        order = 'chronological'
        if d.chance(0.15):
            # a log that is not chronological with respect to its first line (several processes writing one log, a wrapped
            # 32-bit clock): later lines may carry earlier times; shown times may then be negative
            order = 'not-chronological'
            base = specs[0]['t_us']
            for m in specs[1:]:
                if d.chance(0.4):
                    m['t_us'] = max(0, base - d.choice([1, 999, 1_000_001, 2_500_000, d.int(0, 5_000_000), 2_200_000_000, 4_200_000_000]) + (m['t_us'] - base) // 7)      # (also the size of a restarted 32-bit microsecond clock)
        if order == 'chronological' and d.chance(0.08) and len(specs) >= 3:
            # libwayland's 32-bit microsecond clock restarts in the middle of the log: later lines carry small times again; shown
            # times are still "log time minus first log time" (negative), nothing is to be "unwrapped"
            order = 'clock-restart'
            k = d.int(1, len(specs) - 1)
            t = d.choice([4_290_000_000, 4_294_000_000, 4_200_000_000])
            for i, m in enumerate(specs):
                if i == k:
                    t = d.choice([0, 100_000, 5_000_000])
                elif i:
                    t = min(t + d.choice([0, 1000, 250_000, 999_999, 1_000_001, 2_500_000]), histgen.T_MAX)
                m['t_us'] = t
        whole = order == 'chronological' and d.chance(0.1)
        if whole:
            # every time a whole number of seconds: all the tool's floating-point arithmetic is exact then, so a gap of exactly
            # one second is decidable - it does not *exceed* a second, no separator
            t = d.choice([0, 1_000_000, 5_000_000])
            for k, m in enumerate(specs):
                if k:
                    t += d.choice([0, 1_000_000, 1_000_000, 2_000_000])
                m['t_us'] = t
        last = max(m['t_us'] for m in specs)
        room = histgen.T_MAX - last
        shift = d.choice([0, 1, 999, 1000, 1_000_000, 3_999_999_999, room]) if d.chance(0.6) else d.int(0, room)
        shift = max(0, min(shift, room))
        if whole:
            shift = d.choice([0, 1_000_000, 3_000_000_000])
        flt = None
        if d.chance(0.85):
            g = rm.Gen(d, rm.vocab(specs), 1)
            flt = scripts.gen_matcher_text(d, g) if d.chance(0.35) else d.choice(
                ['wl_display', 'wl_registry', '.delete_id', '.bind', 'A:', '2', '.new', 'wl_callback', '* ! wl_display', '* ! .bind', '* ! 2', '* ! wl_callback', 'wl_display, wl_registry', '* ! .new'])
        lists = []
        if d.chance(0.25):
            # live view restricted to early messages, listings of later ones (the live view's last shown
            # time must not leak into a listing)
            flt = '.' + specs[d.int(0, min(2, len(specs) - 1))]['name']
            lists.append('list .' + specs[d.int(len(specs) // 2, len(specs) - 1)]['name'])
        g2 = rm.Gen(d, rm.vocab(specs), 1)
        for _ in range(d.int(0, 3)):
            lists.append('list ' + (d.choice(['*', 'wl_display', '.delete_id', 'A:', '', 'wl_registry', '.new', 'wl_callback', '.bind', '* ! wl_display', 'B:', '* ! wl_registry'])
                                    if d.chance(0.7) else scripts.gen_matcher_text(d, g2)))
        # a breakpoint matcher (-b) prints `Stopped at` notes; it must not influence times or separators
        brk = d.choice(['wl_display', 'wl_registry', '.delete_id', '.bind', '*', '.new', 'wl_callback', '* ! wl_display', '.' + specs[d.int(0, len(specs) - 1)]['name']]) if d.chance(0.35) else None
        return dict(specs=specs, dialect=d.choice(['new', 'old', 'old-comma']), shift=shift, filter=flt, lists=lists, order=order, brk=brk, whole_seconds=whole)

    def execute(self, case):
        res = Result()
        res.evals = 0
        a, ca = check_run(case, res, 0, '')
        classes = set(ca)
        if case['shift']:
            b, cb = check_run(case, res, case['shift'], ':shifted')
            if res.counters.get('exactly-one-second-gaps-skipped'):
                # a separator for an exactly-one-second gap may legitimately come and go with the shift
                a = [l for l in a if not (session.SEP_LINE.match(l) and units(session.SEP_LINE.match(l).group(1)) == 10000)]
                b = [l for l in b if not (session.SEP_LINE.match(l) and units(session.SEP_LINE.match(l).group(1)) == 10000)]
            why = same_up_to_rounding(a, b)
            if why:
                res.bad('shift-changes-display', 'adding %d us to every time changes what is shown: %s' % (case['shift'], why))
            ndiff = sum(1 for x, y in zip(a, b) if x != y)
            res.count('lines-differing-in-last-digit', ndiff)
        res.nontrivial = case['shift'] != 0 and 'hidden-between-shown' in classes and 'gap>1s' in classes and 'gap<=1s' in classes
        for c in classes: res.label(c)
        res.label('dialect:' + case['dialect'])
        if case['shift']: res.label('shifted')
        if case['lists']: res.label('with-listing')
        if case.get('brk'): res.label('with-breakpoint-matcher')
        res.label(case.get('order', 'chronological'))
        if case.get('whole_seconds'): res.label('whole-second-times')
        res.sample = dict(dialect=case['dialect'], shift=case['shift'], filter=case.get('filter'), lines=render_lines(case['specs'], case['dialect'])[:6], lists=case['lists'])
        return res


LISTINGS = ['list .get_registry ~ 1', 'list .get_registry, .sync ~ 9', 'list', 'list ~ 1', 'list .get_registry', 'list .sync ~ 1', 'list .get_registry, .sync ~ 2', 'list wl_callback ~ 1', 'list * ~ 2']


class SinkSessions(Stage):
    """the connection-id interface (what GDB mode drives): connections open and close while time goes on - also when for a while
    no connection is open at all; every shown time is still the message's time minus the first message's, and separators sit
    between consecutively shown messages iff their exact gap exceeds one second"""
    name = 'sink-sessions'

    def examples(self, tier):
        return 200 if tier == 'quick' else 14 * 1500

    def gen(self, d, tier):
        ids = ['x', 'y']
        ops, is_open = [], []
        t = d.choice([0, 1000, 5_000_000, 123_456_789])
        for _ in range(d.int(4, 30)):
            t += d.choice([0, 1000, 250_000, 999_999, 1_000_000, 1_000_001, 2_500_000]) if d.chance(0.8) else d.int(0, 3_000_000)
            k = d.weighted([(3, 'open'), (3, 'close'), (10, 'message'), (3, 'cmd'), (2, 'old-listing')])
            if k == 'old-listing':
                # a listing that shows messages from a while ago, and soon after it the next live message (of the live view's last
                # message, not of the listing's last line, that one is the neighbour)
                if is_open and len(ops) > 3:
                    ops.append(['cmd', None, d.choice(['list .get_registry', 'list .get_registry ~ 1', 'list .get_registry, .sync ~ 9']), t])
                    t += d.choice([0, 1000, 250_000, 999_999, 1_000_000])
                    ops.append(['message', d.choice(is_open), d.choice(['sync', 'done', 'delete_id']), t])
            elif k == 'cmd':
                # typed while messages stream in (GDB mode): commands that show no message - a listing that matches nothing or does
                # not parse, queries, help - leave the live view's sense of "the message shown before" alone
                ops.append(['cmd', None, d.choice(['list xdg_toplevel', 'list .nope', 'list (', 'list wl_a@5', 'help', 'connection', 'filter', 'breakpoint',
                                                   'matcher wl_display', 'list zz: *', 'frob', 'list ~ x']), t])
                if d.chance(0.35):
                    # ... and a listing that does show messages (old ones, as a rule): the separators of the live view are about
                    # the messages of the live view, a listing in between is not one of them
                    ops[-1][2] = d.choice(LISTINGS)
            elif k == 'message' and is_open:
                ops.append(['message', d.choice(is_open), d.choice(['sync', 'done', 'get_registry', 'delete_id']), t])
            elif k == 'close' and is_open:
                c = d.choice(is_open)
                is_open.remove(c)
                ops.append(['close', c, None, t])
            else:
                c = d.choice(ids)
                if c not in is_open:
                    is_open.append(c)
                ops.append(['open', c, d.choice([None, True, False]), t])
        return dict(ops=ops, dialect=d.choice(['new', 'old']), list_at_end=d.chance(0.5))

    def execute(self, case):
        from core import ConnectionManager, matcher
        from core.output import Output, stream
        from frontends.tui import Controller
        from backends.libwayland_debug_output import parse
        env.reset_globals()
        res = Result()
        res.evals = 0
        out = stream.String()
        cm = ConnectionManager()
        ctl = Controller(Output(False, True, out, stream.String()), cm, matcher.always, matcher.never)
        st = {}
        first_t = prev_t = None
        times = []
        gap_open = False
        after_listing = False
        for op in case['ops']:
            kind, cid, arg, t = op
            n0 = len(out.buffer)
            if kind == 'open':
                st[cid] = dict(next=2, cbs=[])
                cm.open_connection(t / 1e6, cid, arg)
                continue
            if kind == 'cmd':
                ctl.process_command(arg)
                if any(session.MSG_LINE.match(l) for l in out.buffer[n0:].split('\n')):
                    if arg not in LISTINGS:
                        raise RuntimeError('harness: %r showed a message' % arg)
                    after_listing = True
                    res.label('listing-between-live-messages')
                continue
            if kind == 'close':
                cm.close_connection(t / 1e6, cid)
                st.pop(cid, None)
                if not st:
                    gap_open = True
                continue
            mc = st[cid]
            ts = wire.timestamp(t, case['dialect']).rstrip()
            sep = '@' if case['dialect'] == 'old' else '#'
            if arg == 'sync' or (arg in ('done', 'delete_id') and not mc['cbs']):
                line = '%s  -> wl_display%s1.sync(new id wl_callback%s%d)' % (ts, sep, sep, mc['next'])
                mc['cbs'].append(mc['next']); mc['next'] += 1
            elif arg == 'done':
                line = '%s wl_callback%s%d.done(7)' % (ts, sep, mc['cbs'][-1])
            elif arg == 'delete_id':
                line = '%s wl_display%s1.delete_id(%d)' % (ts, sep, mc['cbs'].pop())
            else:
                line = '%s  -> wl_display%s1.get_registry(new id wl_registry%s%d)' % (ts, sep, sep, mc['next'])
                mc['next'] += 1
            _, msg = parse.message(line)
            cm.message(cid, msg)
            res.evals += 1
            if first_t is None:
                first_t = t
            lines = out.buffer[n0:].split('\n')[:-1]
            ml = [l for l in lines if session.MSG_LINE.match(l)]
            sl = [l for l in lines if session.SEP_LINE.match(l)]
            if len(ml) != 1:
                res.bad('sink:message-lines!=1', '%r printed %r' % (line, lines))
                break
            shown = units(session.MSG_LINE.match(ml[0]).group(1))
            exact = t - first_t
            if abs(shown * 100 - exact) > 101:
                res.bad('sink:time-column' + (':after-all-connections-closed' if gap_open else ''), '%r shown at %s, exact %d us after the first message' % (
                    line, session.MSG_LINE.match(ml[0]).group(1), exact))
                break
            if prev_t is not None and after_listing:
                # the first live message after a listing: the listed lines are not its neighbours in the live view, so a gap of
                # at most a second to the live message before it cannot earn a separator; whether a longer gap across the listing
                # does is not settled by the statement (the tool starts afresh after a listing) and is only counted
                after_listing = False
                if t - prev_t <= 1_000_000:
                    if sl:
                        res.bad('sink:separator-spurious:after-a-listing', 'before %r: %d us after the live message before it (a listing in between), separators %r' % (line, t - prev_t, sl))
                        break
                else:
                    res.count('gap-across-a-listing(unspecified)')
            elif prev_t is not None:
                want = t - prev_t > 1_000_000
                if bool(sl) != want:
                    res.bad('sink:separator-' + ('missing' if want else 'spurious'), 'before %r: gap %d us, separators %r' % (line, t - prev_t, sl))
                    break
            prev_t = t
            times.append(t)
        if case.get('list_at_end') and times and not res.discs:
            n0 = len(out.buffer)
            ctl.process_command('list')
            got = [units(session.MSG_LINE.match(l).group(1)) for l in out.buffer[n0:].split('\n') if session.MSG_LINE.match(l)]
            if len(got) != len(times) or any(abs(g * 100 - (t - first_t)) > 101 for g, t in zip(got, times)):
                res.bad('sink:listing-times', 'listed times %r, exact %r' % (got[:8], [(t - first_t) for t in times[:8]]))
        res.nontrivial = gap_open and len(times) >= 3
        if gap_open: res.label('all-connections-closed-for-a-while')
        res.sample = case['ops'][:12]
        return res


class C16(Prop):
    id = 'C16'
    rule = ('generated histories with microsecond timestamps (gaps drawn from {0, 1us, sub-ms, 999999, 1000000, 1000001, 2.5s, 60s, random}), '
            'rendered in the current, old and old-with-comma dialects, an optional filter hiding messages, trailing `list` commands, and a '
            'constant shift (0 .. 4e9 us, kept below 2^32): time column and separator/gap values are recomputed in exact integer microseconds '
            '(+-1 in the last printed digit), a separator must sit between two consecutively shown messages iff their exact gap exceeds '
            '1000000 us, and the shifted log must display the same up to 1 unit in time-valued fields. non-trivial = shift != 0, a hidden message '
            'between two shown ones, and gaps on both sides of the threshold; distinct by SHA-1 of the case. sink-sessions interleave commands that show no message (empty or unparsable listings, queries, help): they must not change where separators appear.')
    assumptions = ['a gap of exactly 1000000 us between shown neighbours does not exceed a second: no separator (decided since fix 205ee9e)',
                   'timestamps stay below 2^32 us (no wrap-around of libwayland\'s clock)',
                   'listings are only issued after the stream (a listing between two live messages makes "one after the other" ambiguous)']
    stages = [Shifts(), SinkSessions()]


PROP = C16()
