"""C14 - displayed object and connection labels are unambiguous and work as matchers."""
import itertools, re, string
from .. import env, histgen, model, session, wire
from ..runner import Prop, Stage, Result

N4 = 26 + 26**2 + 26**3 + 26**4      # all ids of one to four letters
CHUNK = 12000


def kth(n):
    """independent shortlex enumeration: the n-th string over a..z (0 -> 'a', 25 -> 'z', 26 -> 'aa')"""
    length, count = 1, 26
    while n >= count:
        n -= count
        length += 1
        count = 26 ** length
    s = []
    for _ in range(length):
        s.append(string.ascii_lowercase[n % 26])
        n //= 26
    return ''.join(reversed(s))


class Letters(Stage):
    """exhaustive: every index 0 .. 475253"""
    name = 'letters-exhaustive'
    kind = 'enum'
    exhaustive = True

    def examples(self, tier):
        return 1

    def cases(self, tier):
        for a in range(0, N4, CHUNK):
            yield [a, min(a + CHUNK, N4)]

    def execute(self, case):
        from core.letter_id_generator import number_to_letter_id, letter_id_to_number, LetterIdGenerator
        res = Result()
        a, b = case
        prev = number_to_letter_id(a - 1, False) if a > 0 else None
        for i in range(a, b):
            exp = kth(i)
            lo = number_to_letter_id(i, False)
            up = number_to_letter_id(i, True)
            if lo != exp:
                res.bad('letters-not-shortlex', 'index %d -> %r, expected %r' % (i, lo, exp))
                break
            if up != exp.upper():
                res.bad('letters-caps', 'index %d -> %r' % (i, up))
                break
            if letter_id_to_number(lo) != i or letter_id_to_number(up) != i:
                res.bad('letters-inverse', '%r -> %d / %d, expected %d' % (lo, letter_id_to_number(lo), letter_id_to_number(up), i))
                break
            if prev is not None and not ((len(prev), prev) < (len(lo), lo)):
                res.bad('letters-order', '%r then %r' % (prev, lo))
                break
            prev = lo
        if a == 0:
            g = LetterIdGenerator()
            for i in range(800):
                n = g.next()
                if n != kth(i).upper():
                    res.bad('name-generator', 'call %d -> %r' % (i, n))
                    break
        res.evals = b - a
        res.nontrivial = True
        res.label('chunk')
        res.sample = dict(range=case, first=kth(a), last=kth(b - 1))
        return res


class LettersFar(Stage):
    name = 'letters-sampled'

    def examples(self, tier):
        return 2000 if tier == 'quick' else 10000 * 14

    def gen(self, d, tier):
        return d.int(N4, 10**12) if d.chance(0.8) else d.choice([N4, N4 + 1, 26**5, 10**12, 26 + 26**2 + 26**3 + 26**4 + 26**5 - 1, 26 + 26**2 + 26**3 + 26**4 + 26**5])

    def execute(self, n):
        from core.letter_id_generator import number_to_letter_id, letter_id_to_number
        res = Result()
        lo = number_to_letter_id(n, False)
        if lo != kth(n):
            res.bad('letters-not-shortlex', 'index %d -> %r, expected %r' % (n, lo, kth(n)))
        if number_to_letter_id(n, True) != kth(n).upper():
            res.bad('letters-caps', str(n))
        if letter_id_to_number(lo) != n or letter_id_to_number(lo.upper()) != n:
            res.bad('letters-inverse', '%r' % lo)
        nxt = number_to_letter_id(n + 1, False)
        if not ((len(lo), lo) < (len(nxt), nxt)):
            res.bad('letters-order', '%r then %r' % (lo, nxt))
        res.nontrivial = True
        res.label('len=%d' % len(lo))
        return res


def check_labels(specs, res, dialect='new', via_list=True, max_objects=40):
    from core import matcher
    s = session.run_history(specs, dialect)
    msgs = s.messages()
    W = model.MWorld()
    recs = [W.step(m) for m in specs]
    if len(msgs) != len(recs):
        res.bad('message-count', '%d recorded, %d in history' % (len(msgs), len(recs)))
        return s
    names = [c.name() for c in s.cm.connections()]
    if len(set(names)) != len(names):
        res.bad('connection-names-not-distinct', repr(names))
    if names != [W.conns[t].name for t in W.order]:
        res.bad('connection-names', '%r, model %r' % (names, [W.conns[t].name for t in W.order]))
    multi_conn_ids = {}
    for mc in W.conns.values():
        for i in mc.db:
            multi_conn_ids[i] = multi_conn_ids.get(i, 0) + 1
    # connection labels
    for mc in W.conns.values():
        for text in (mc.name + ':', mc.name.lower() + ':') if False else (mc.name + ':',):
            try:
                cmatch = matcher.parse(text).simplify()
            except RuntimeError as e:
                res.bad('connection-label-rejected', '%r: %s' % (text, e))
                continue
            for msg, rec in zip(msgs, recs):
                exp = rec['conn'] is mc
                if cmatch.matches(msg) != exp:
                    res.bad('connection-label-selects-wrong', '%r on %s (expected %r)' % (text, s.matcher and str(msg), exp))
                    break
                res.evals += 1
    # object labels
    nobj = 0
    for mc in W.conns.values():
        rc = [c for c in s.cm.connections() if c.name() == mc.name]
        if not rc:
            continue
        shown = set()
        for l in rc[0].db.values():
            for o in l:
                lab = str(o)
                if lab in shown:
                    res.bad('duplicate-label', '%s on %s' % (lab, mc.name))
                shown.add(lab)
        # labels with late letters first (y, z, aa, ...), then the rest
        for mo in sorted(mc.all_objects(), key=lambda o: (-(o.gen >= 700), -(o.gen >= 23), o.id, o.gen)):
            if nobj >= max_objects:
                break
            nobj += 1
            nt = len(mc.db[mo.id]) >= 2 or multi_conn_ids[mo.id] >= 2
            if nt:
                res.count('nontrivial-labels')
            let = model.letters(mo.gen)
            if mo.label() not in shown:
                res.bad('label-not-displayed', '%s on %s; displayed %r' % (mo.label(), mc.name, sorted(shown)[:8]))
            forms = ['%s: %d%s' % (mc.name, mo.id, let), '%s: %d%s' % (mc.name, mo.id, let.upper())]
            if len(W.conns) == 1:
                forms.append('%d%s' % (mo.id, let))      # the only connection: the label without its connection part is as exact
            expected = [msg for msg, rec in zip(msgs, recs) if rec['conn'] is mc and mc.mentions(rec, mo)]
            for form in forms:
                try:
                    om = matcher.parse(form).simplify()
                except RuntimeError as e:
                    res.bad('object-label-rejected', '%r: %s' % (form, e))
                    continue
                for msg, rec in zip(msgs, recs):
                    exp = rec['conn'] is mc and mc.mentions(rec, mo)
                    got = om.matches(msg)
                    res.evals += 1
                    if got and not exp:
                        res.bad('label-selects-unrelated-message', '%r selects %s' % (form, str(msg)))
                        break
                    if exp and not got:
                        kind = 'target' if rec['target'] is mo else ('destroyed' if rec['destroyed'] is mo else 'argument')
                        res.bad('label-misses-message:' + kind, '%r misses %s' % (form, str(msg)))
                        break
            if via_list and nobj <= 6:
                form = '%s: %d%s' % (mc.name, mo.id, let)
                n0 = len(s.out.buffer)
                s.ctl.process_command('list ' + form)
                lines = s.out.buffer[n0:].split('\n')[:-1]
                got = [l for l in lines if session.MSG_LINE.match(l)]
                exp = session.render_shown(expected)
                if got != exp:
                    res.bad('list-label-output', '`list %s` printed %r, expected %r' % (form, got[:4], exp[:4]))
    return s


class Labels(Stage):
    name = 'labels-as-matchers'

    def examples(self, tier):
        return 200 if tier == 'quick' else 14 * 1500

    def gen(self, d, tier):
        deep = d.chance(0.15)
        prof = dict(reuse=0.9, weights=dict(deep=80, message=12, delete=5, bind=3, long_line=3)) if deep else dict(
            reuse=0.75, weights=dict(delete=20, bind=12, message=42, server_event=14, deep=6, sync=6, midsession=18, long_line=3))
        # one connection when driving an id deep, otherwise the messages spread and no id gets past letter m
        specs = histgen.history(d, nconn=1 if deep else d.int(1, 3), nmsg=d.int(64, 90) if deep else d.int(4, 36), profile=prof)
        return dict(dialect=d.choice(['new', 'old']), specs=specs)

    def execute(self, case):
        res = Result()
        res.evals = 0
        check_labels(case['specs'], res, case.get('dialect', 'new'))
        for l in histgen.labels_of(case['specs']):
            res.label(l)
        res.nontrivial = res.counters.get('nontrivial-labels', 0) > 0
        res.sample = dict(lines=[wire.render(m, case.get('dialect', 'new')) for m in case['specs'][:10]], n=len(case['specs']))
        return res


class LongLabels(Stage):
    """labels of objects deep into a long session (three letters: incarnation 703 is aaa; ids up to 0xfeffffff) as matchers"""
    name = 'long-session-labels'

    def examples(self, tier):
        return 6 if tier == 'quick' else 14 * 8

    def gen(self, d, tier):
        return dict(dialect=d.choice(['new', 'old']), template=histgen.gen_long_template(d))

    def execute(self, case):
        res = Result()
        res.evals = 0
        specs = histgen.expand_long(case['template'])
        check_labels(specs, res, case.get('dialect', 'new'), via_list=True, max_objects=10)
        t = case['template']
        res.nontrivial = t['cycles'] >= 27
        res.label('incarnations>=703' if t['cycles'] >= 703 else 'incarnations>=27')
        res.sample = dict(template=t, n=len(specs))
        return res


class LabelsInSessions(Stage):
    """labels used after the session has a history: connections were selected and deselected while traffic went on, the same
    labels were given to filter / breakpoint commands (extending them) before; a label given to `list` must still select
    exactly the messages of its object / connection, all of them"""
    name = 'labels-in-sessions'

    def examples(self, tier):
        return 160 if tier == 'quick' else 14 * 1200

    def gen(self, d, tier):
        specs = histgen.history(d, nconn=d.int(2, 3), nmsg=d.int(8, 36), tagged=True, profile=dict(
            reuse=0.75, weights=dict(delete=20, bind=12, message=42, server_event=12, sync=8)))
        W = model.MWorld()
        labels = []

        def refresh():
            labels[:] = [mc.name + ':' for mc in W.conns.values()] + [
                '%s: %d%s' % (mc.name, o.id, model.letters(o.gen)) for mc in W.conns.values() for o in mc.all_objects() if o.id != 1]
        items = []
        if d.chance(0.35) and len(specs) > 3:
            # an early connection announces an app id that reads like the name of a (later) connection: a name always means the
            # connection of that name first
            k = d.int(1, len(specs) // 2)
            specs.insert(k, dict(conn=specs[0]['conn'], t_us=specs[k]['t_us'], sent=True, iface='xdg_toplevel', id=900 + d.int(0, 3), name='set_app_id',
                                 args=[['str', d.choice(['b', 'B', 'c', 'b', 'editor'])]]))
        for m in specs:
            while labels and d.chance(0.3):
                k = d.weighted([(5, 'select'), (3, 'all'), (4, 'filter-label'), (2, 'break-label'), (2, 'reset'), (3, 'list-label'), (2, 'select-other'), (2, 'filter-excl'), (2, 'filter-pair')])
                if k in ('filter-excl', 'filter-pair'):
                    # labels as exclusions and in comma lists given to filter / breakpoint (what later listings select is unaffected)
                    l1, l2 = d.choice(labels), d.choice(labels)
                    items.append(['cmd', d.choice(['filter ', 'breakpoint ']) + ('%s ! %s' if k == 'filter-excl' else '%s, %s') % (l1, l2), 'free'])
                    continue
                if k == 'select-other':
                    # lower case, an app id, or a name that denotes nothing (refused: the selection stays as it is)
                    items.append(['cmd', 'connection ' + d.choice(['b', 'c', 'a', 'Q', 'ZZ', 'editor', 'nope'])])
                    items.append(['cmd', 'list ' + d.choice(labels), 'check'])
                    continue
                if k == 'select': items.append(['cmd', 'connection ' + d.choice([mc.name for mc in W.conns.values()])])
                elif k == 'all': items.append(['cmd', 'connection all'])
                elif k == 'filter-label': items.append(['cmd', 'filter ' + d.choice(labels)])
                elif k == 'break-label': items.append(['cmd', 'breakpoint ' + d.choice(labels)])
                elif k == 'reset': items.append(['cmd', d.choice(['filter !', 'filter *', 'breakpoint !'])])
                else: items.append(['cmd', 'list ' + d.choice(labels), 'check'])
            items.append(['line', wire.render(m, 'new'), m['conn']])
            W.step(m)
            refresh()
        # labels that filter / breakpoint commands were given come back on their own
        used = [it[1].split(' ', 1)[1] for it in items if it[0] == 'cmd' and len(it) == 2 and it[1].startswith(('filter ', 'breakpoint ')) and ':' in it[1]]
        items.append(['cmd', 'connection all'])
        for _ in range(d.int(2, 6)):
            items.append(['cmd', 'list ' + (d.choice(used) if used and d.chance(0.5) else d.choice(labels)), 'check'])
        for _ in range(d.int(0, 2)):
            # two labels of different connections in one list: what either selects, in arrival order
            l1 = d.choice(labels)
            others = [l for l in labels if l.split(':')[0] != l1.split(':')[0]]
            if others:
                l2 = d.choice(others)
                items.append(['cmd', d.choice(['list %s, %s', 'list %s,%s', 'l %s, %s ~ 500']) % (l1, l2), 'check-pair', [l1, l2]])
        if d.chance(0.6):
            # the label as the (only) filter: a plain `list` then shows what the label selects, whatever the breakpoint matcher is
            lab = d.choice(labels)
            items += [['cmd', 'filter !'], ['cmd', 'filter ' + lab], ['cmd', 'list', 'check-filter', lab]]
        return dict(specs=specs, items=items)

    def execute(self, case):
        res = Result()
        res.evals = 0
        s = session.Session()
        segs = s.run(case['items'], prompt=False)
        W = model.MWorld()
        sel = None
        app_ids = {}
        nline = 0
        checked = 0
        arrivals = []      # (connection name, index among that connection's messages) per line, in arrival order
        for seg in segs:
            it = s.io.items[seg.index] if seg.index < len(s.io.items) else None
            if seg.kind == 'line':
                sp = case['specs'][nline]
                rec = W.step(sp)
                if sp['name'] == 'set_app_id' and sp['args'] and sp['args'][0][0] == 'str' and sp['args'][0][1]:
                    app_ids[rec['conn'].name] = sp['args'][0][1]
                nline += 1
                arrivals.append((rec['conn'].name, len(rec['conn'].msgs) - 1))
                continue
            if seg.kind != 'cmd':
                continue
            if len(it) > 3 and it[2] == 'check-pair':
                import re as _re
                wanted = {}
                for form in it[3]:
                    cname, _, rest = form.partition(':')
                    mc = next(c for c in W.conns.values() if c.name == cname)
                    mm = _re.fullmatch(r'(\d+)([a-z]+)', rest.strip()) if rest.strip() else None
                    wanted[cname] = (mc, mc.db[int(mm.group(1))][kth_index(mm.group(2))] if mm else None)
                allm = s.ctl.all_messages
                exp = []
                for g, (cname, k) in enumerate(arrivals):
                    if cname in wanted and g < len(allm) and (sel is None or sel == cname):
                        mc, mo = wanted[cname]
                        if mo is None or mc.mentions(mc.msgs[k], mo):
                            exp.append(allm[g])
                got = [l for l in seg.out_lines() if session.MSG_LINE.match(l)]
                want = session.render_shown(exp)
                res.evals += len(arrivals)
                checked += 1
                if got != want:
                    extra = [l for l in got if l not in want]
                    missing = [l for l in want if l not in got]
                    res.bad('session:list-two-labels-%s' % ('selects-unrelated' if extra else 'misses-messages'),
                            '`%s` printed %d lines, expected %d; extra %r missing %r' % (seg.text, len(got), len(want), extra[:2], missing[:2]))
                continue
            if seg.text.startswith('connection '):
                a = seg.text.split(' ', 1)[1]
                names = [c.name for c in W.conns.values()]
                if a == 'all':
                    sel = None
                elif a.lower() in [n.lower() for n in names]:
                    sel = next(n for n in names if n.lower() == a.lower())          # by name first ...
                elif a.lower() in [v.lower() for v in app_ids.values()]:
                    sel = next(n for n in names if app_ids.get(n, '').lower() == a.lower())      # ... then by app id
                # else: refused, the selection stays
                continue
            if len(it) < 3 or it[2] not in ('check', 'check-filter'):
                continue
            form = seg.text.split(' ', 1)[1] if it[2] == 'check' else it[3]
            cname, _, rest = form.partition(':')
            rest = rest.strip()
            mc = next(c for c in W.conns.values() if c.name == cname)
            rc = next((c for c in s.cm.connections() if c.name() == cname), None)
            if rc is None or len(rc.messages()) < len(mc.msgs):
                res.bad('session:connection-record', '%s: %r recorded, model %d' % (cname, rc and len(rc.messages()), len(mc.msgs)))
                continue
            recorded = rc.messages()[:len(mc.msgs)]      # (evaluated after the run: the record as it was when the command ran)
            if rest:
                import re as _re
                mm = _re.fullmatch(r'(\d+)([a-z]+)', rest)
                oid, gen = int(mm.group(1)), kth_index(mm.group(2))
                mo = mc.db[oid][gen]
                exp = [msg for msg, rec in zip(recorded, mc.msgs) if mc.mentions(rec, mo)]
            else:
                exp = list(recorded)
            if sel is not None and sel != cname:
                exp = []                 # another connection is selected: nothing of this one is listed
            got = [l for l in seg.out_lines() if session.MSG_LINE.match(l)]
            want = session.render_shown(exp)
            res.evals += len(mc.msgs)
            checked += 1
            if got != want:
                extra = [l for l in got if l not in want]
                missing = [l for l in want if l not in got]
                res.bad('session:list-label-%s' % ('selects-unrelated' if extra else 'misses-messages'),
                        '`%s` after %r printed %d lines, expected %d; extra %r missing %r' % (
                            seg.text, [i[1] for i in case['items'][:seg.index] if i[0] == 'cmd'][-6:], len(got), len(want), extra[:2], missing[:2]))
        cmds = [i[1] for i in case['items'] if i[0] == 'cmd']
        res.nontrivial = checked >= 2 and any(c.startswith('connection ') and c != 'connection all' for c in cmds) and any(c.startswith('filter ') and ':' in c for c in cmds)
        if any(c.startswith('connection ') and c != 'connection all' for c in cmds): res.label('selection-while-streaming')
        if any(c.startswith('filter ') and ':' in c for c in cmds): res.label('label-given-to-filter-before')
        res.count('label-listings-checked', checked)
        res.sample = dict(commands=cmds[:12], messages=len(case['specs']))
        return res


def kth_index(letters_text):
    n = 0
    while kth(n) != letters_text:
        n += 1
    return n


class ManyConnections(Stage):
    """more than 26 connections: names run past Z (AA, AB, ...) and still work as matchers"""
    name = 'many-connections'

    def examples(self, tier):
        return 12 if tier == 'quick' else 14 * 40

    def gen(self, d, tier):
        n = d.int(27, 60)
        specs = []
        t = 0
        gens = [histgen.ConnGen(str(100 + k), d.choice(['client', 'server'])) for k in range(n)]
        order = list(range(n)) + [d.int(0, n - 1) for _ in range(d.int(0, 40))]
        for k in order:
            t += histgen.next_gap(d)
            m = gens[k].next(d)
            m['conn'] = gens[k].tag
            m['t_us'] = t
            specs.append(m)
        return dict(dialect='new', specs=specs)

    def execute(self, case):
        res = Result()
        res.evals = 0
        check_labels(case['specs'], res, 'new', via_list=False, max_objects=12)
        res.label('connections>26')
        res.nontrivial = True
        res.sample = dict(connections=len({m['conn'] for m in case['specs']}), n=len(case['specs']))
        return res


class SinkNames(Stage):
    """connections that come and go on the connection-id interface (as in GDB mode): names stay distinct
    and `X:` selects exactly that connection's messages"""
    name = 'sink-names'

    def examples(self, tier):
        return 150 if tier == 'quick' else 14 * 1000

    def gen(self, d, tier):
        ids = ['a', 'b', 'c', 'gdb_conn:0x55']
        ops = []
        is_open = set()
        for _ in range(d.int(3, 40)):
            k = d.weighted([(3, 'open'), (2, 'close'), (5, 'message')])
            if k == 'message' and is_open:
                ops.append(['message', d.choice(sorted(is_open)), d.int(2, 5)])
            elif k == 'close' and is_open:
                c = d.choice(sorted(is_open))
                is_open.discard(c)
                ops.append(['close', c])
                if d.chance(0.4):
                    # the id is used again at once and the next message is on it (an address libwayland hands out again)
                    is_open.add(c)
                    ops.append(['open', c, d.choice([None, True, False])])
                    ops.append(['message', c, d.int(2, 5)])
            else:
                c = d.choice(ids)
                is_open.add(c)
                ops.append(['open', c, d.choice([None, True, False])])
        return dict(ops=ops)

    def execute(self, case):
        from core import matcher
        from .c04 import SinkExec
        res = Result()
        res.evals = 0
        ex = SinkExec()
        for op in case['ops']:
            ex.apply(op, res)            # which connection a message lands on decides what its label selects: the sink model's verdicts count here too
        conns = list(ex.cm.connections())
        names = [c.name() for c in conns]
        if len(set(names)) != len(names):
            res.bad('connection-names-not-distinct', repr(names))
        allm = [(c, m) for c in conns for m in c.messages()]
        for c in conns:
            cm_ = matcher.parse(c.name() + ':').simplify()
            for c2, m in allm:
                res.evals += 1
                if cm_.matches(m) != (c2 is c):
                    res.bad('connection-label-selects-wrong', '%r %s a message of connection #%d (names %r)' % (
                        c.name() + ':', 'selects' if c2 is not c else 'misses', conns.index(c2), names))
                    break
        closed = set()
        reopen = False
        for op in case['ops']:
            if op[0] == 'close': closed.add(op[1])
            if op[0] == 'open' and op[1] in closed: reopen = True
        res.nontrivial = len(conns) >= 3 and reopen
        res.label('connections=%d' % min(len(conns), 6))
        if reopen: res.label('reopen-after-close')
        res.sample = case['ops'][:20]
        return res


class ConnectionCommandLabels(Stage):
    """sessions with very many connections (short-lived clients add up): every label, also one that reads like a word of the command
    language (the 1000th connection is ALL), selects exactly that connection when given to `connection` and to `list LABEL:`"""
    name = 'connection-command-labels'
    KEYWORDS = ['all']        # words with a meaning of their own after `connection`

    def examples(self, tier):
        return 12 if tier == "quick" else 14 * 12

    def gen(self, d, tier):
        n = d.choice([d.int(27, 80), d.int(700, 760), d.int(1000, 1060), d.int(1000, 1060)])
        picks = {0, n - 1} | {d.int(0, n - 1) for _ in range(d.int(4, 12))}
        for i in range(n):
            if model.letters(i, caps=True).lower() in self.KEYWORDS:
                picks.add(i)
                picks.add(i - 1)
        picks = sorted(i for i in picks if 0 <= i < n)
        return dict(n=n, messages=[[i, d.int(1, 3)] for i in picks], closed=[i for i in picks if d.chance(0.3)])

    def execute(self, case):
        from core import wl
        from .c04 import SinkExec
        res = Result()
        res.evals = 0
        ex = SinkExec()
        n = case['n']
        for i in range(n):
            ex.cm.open_connection(i * 0.001, 'c%d' % i, [None, True, False][i % 3])
        t = 10.0
        count = {}
        for i, k in case['messages']:
            for j in range(k):
                t += 0.5
                ex.cm.message('c%d' % i, wl.Message(t, wl.UnresolvedObject(1, 'wl_display'), True, 'sync', (wl.Arg.Object(wl.UnresolvedObject(3 + j, 'wl_callback'), True),)))
            count[model.letters(i, caps=True)] = k
        for i in case['closed']:
            ex.cm.close_connection(t + 1, 'c%d' % i)
        names = [c.name() for c in ex.cm.connections()]
        if names != [model.letters(i, caps=True) for i in range(n)]:
            res.bad('connection-names', 'names differ from A, B, ... at %r' % [(i, a) for i, a in enumerate(names) if a != model.letters(i, caps=True)][:3])
            return res
        line = re.compile(r'^\s*-?\d+\.\d+ (\w+): ', re.M)

        def listed(cmds):
            n0 = len(ex.out.buffer)
            for c in cmds:
                ex.ctl.process_command(c)
            got = {}
            for lab in line.findall(ex.out.buffer[n0:]):
                got[lab] = got.get(lab, 0) + 1
            return got
        got = listed(['connection all', 'list'])
        if got != count:
            res.bad('list-of-all-connections', 'all connections selected: list shows %r, sent %r' % (got, count))
        for lab, k in sorted(count.items()):
            res.evals += 2
            got = listed(['connection ' + lab, 'list'])
            if got != {lab: k}:
                res.bad('connection-command-selects-wrong', '`connection %s` then `list` shows %r, that connection has %d messages (session of %d connections)' % (lab, got, k, n))
                break
            got = listed(['connection all', 'list %s:' % lab])
            if got != {lab: k}:
                res.bad('connection-label-selects-wrong', '`list %s:` shows %r, that connection has %d messages (session of %d connections)' % (lab, got, k, n))
                break
        res.nontrivial = n > 26
        res.label('connections>=1000' if n >= 1000 else 'connections>=700' if n >= 700 else 'connections<100')
        res.sample = dict(n=n, labels=sorted(count))
        return res


class C14(Prop):
    id = 'C14'
    rule = ('letters-exhaustive: every index 0..475253 (all ids of one to four letters) in chunks, against an independent shortlex enumeration '
            '(order, no gaps, inverse, case); letters-sampled: indexes up to 1e12; labels-as-matchers: every object and connection of generated '
            'histories (incl. deep id reuse and > 26 connections) used as matcher `CONN: id+letters` / `CONN:` and compared in both inclusions '
            'with the reference model\'s mention sets, also through `list <label>`. non-trivial = case containing an object whose id has >= 2 '
            'incarnations or is in use on >= 2 connections (enumeration chunks all count); sink-names: open/message/close sequences on the '
            'connection-id interface, names distinct and `X:` exact (non-trivial = >= 3 connections with a re-open); labels-in-sessions: scripted sessions in which connections '
            'are selected / deselected while messages stream in and labels are given to filter / breakpoint commands, then `list <label>` is compared with the '
            'model\'s mention set over that connection\'s own record (non-trivial = >= 2 listings checked after a selection and a label filter); long-session-labels: labels of objects in sessions expanded from a template to thousands of messages (incarnation 703 = aaa and beyond) as matchers and through `list`; connection-command-labels: 27..1060 connections opened on the connection-id interface, `connection LABEL` + `list` and `list LABEL:` must show exactly that connection\'s messages for sampled labels, the first, the last and any label that reads like a keyword of the connection command (ALL = the 1000th); distinct by SHA-1 of the case. labels-in-sessions also selects by lower-case names, by app ids that read like names (the name wins) and by names that denote nothing (refused, selection unchanged).')
    assumptions = ['reference model of DESIGN appendix B decides which messages are on / mention / create / destroy an object']
    stages = [Letters(), LettersFar(), Labels(), LongLabels(), LabelsInSessions(), ManyConnections(), SinkNames(), ConnectionCommandLabels()]


PROP = C14()
