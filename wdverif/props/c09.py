"""C09 - GDB mode reports each libwayland closure faithfully, as log mode would."""
import re
from .. import env, gdbsim, histgen, session, wire
from ..runner import Prop, Stage, Result

IFACES = ['wl_surface', 'wl_buffer', 'wl_callback', 'xdg_toplevel', 'wl_output', 'zz_custom', 'wl_data_offer']
I32 = [0, 1, -1, 7, 2147483647, -2147483648, 256, -256]
U32 = [0, 1, 2, 4294967295, 2147483648, 0xff000000, 65536]
FIX = [0, 256, -256, 128, -128, 1, -1, 2147483647, -2147483648, 384, 4174, -384]
STRS = ['', 'a', 'hello world', 'a, b', 'x) y', 'nil', '[null string]', 'ünï', 'wl_surface@3', '12', ' lead', 'trail ']


def gen_closure(d, max_args=20):
    n = d.choice([0, 1, 2, 2, 3, 3, 4, 5, 6]) if d.chance(0.85) else d.int(7, max_args)
    side = d.choice(['client', 'server'])
    sent = d.chance(0.5)
    sig = d.choice(['', '', '1', '2', '3', '7', '12']) if d.chance(0.6) else ''
    args, types = [], []
    for _ in range(n):
        c = d.choice('iufsonah' + 'aaso')
        if c in 'soa' and d.chance(0.4):
            sig += '?'
        sig += c
        t = None
        if c == 'i': args.append(['i', d.choice(I32) if d.chance(0.6) else d.int(-2**31, 2**31 - 1)])
        elif c == 'u': args.append(['u', d.choice(U32) if d.chance(0.6) else d.int(0, 2**32 - 1)])
        elif c == 'f': args.append(['f', d.choice(FIX) if d.chance(0.6) else d.int(-2**31, 2**31 - 1)])
        elif c == 's': args.append(['s', None if d.chance(0.25) else d.choice(STRS)])
        elif c == 'h': args.append(['h', d.int(0, 1023)])
        elif c == 'a': args.append(['a', [d.choice(I32) for _ in range(d.choice([0, 0, 1, 2, 3, 5, 16]))]])
        elif c == 'o':
            t = d.choice(IFACES) if d.chance(0.75) else None
            if d.chance(0.3):
                args.append(['o', t, None])
            else:
                args.append(['o', t if t is not None else d.choice(IFACES), d.choice([2, 3, 5, 0xff000000]) if d.chance(0.5) else d.int(1, 2**32 - 1)])
        else:
            t = d.choice(IFACES) if d.chance(0.7) else None
            args.append(['n', d.choice([2, 3, 9, 0xff000001]) if d.chance(0.5) else d.int(1, 2**32 - 1)])
        types.append(t)
    return dict(name=d.choice(['frob', 'commit', 'enter', 'bind', 'new', 'done', 'configure']), signature=sig, args=args, types=types,
                sender_id=d.choice([1, 2, 3, 0xff000000]) if d.chance(0.5) else d.int(1, 2**32 - 1), target_iface=d.choice(IFACES + ['wl_display']),
                side=side, sent=sent, conn=d.int(0, 2), thread=1, t_us=d.int(0, 10**9), via=d.choice(['wl_closure_invoke', 'wl_closure_dispatch']) if not sent
                else d.choice(['wl_closure_send', 'wl_closure_queue']))


def describe(a):
    from core import wl
    A = wl.Arg
    if type(a) is A.Int: return ['Int', a.value]
    if type(a) is A.Float: return ['Float', a.value]
    if type(a) is A.String: return ['String', a.value]
    if type(a) is A.Null: return ['Null', a.type]
    if type(a) is A.Object: return ['New' if a.is_new else 'Object', a.obj.id, a.obj.type]
    if type(a) is A.Array: return ['Array', None if a.values is None else [describe(v) for v in a.values]]
    if type(a) is A.Fd: return ['Fd', a.value]
    return [type(a).__name__]


def expected_arg(a, t):
    c = a[0]
    if c in 'iu': return ['Int', a[1]]
    if c == 'f': return ['Float', a[1] / 256.0]
    if c == 's': return ['Null', None] if a[1] is None else ['String', a[1]]
    if c == 'o': return ['Null', t] if a[2] is None else ['Object', a[2], t]
    if c == 'n': return ['New', a[1], t]
    if c == 'a': return ['Array', [['Int', x] for x in a[1]]]
    if c == 'h': return ['Fd', a[1]]
    raise ValueError(c)


def classes(spec, res):
    codes = [a[0] for a in spec['args']]
    if 'a' in codes and codes.index('a') < len(codes) - 1:
        res.label('argument-after-array')
        if any(len(a[1]) > 0 for a in spec['args'] if a[0] == 'a'):
            res.label('argument-after-non-empty-array')
    if any(a[0] == 's' and a[1] is None for a in spec['args']): res.label('null-string')
    if any(a[0] == 'o' and a[2] is None for a in spec['args']): res.label('null-object')
    if '?' in spec['signature']: res.label('?-marker')
    if spec['signature'][:1].isdigit(): res.label('version-digits')
    res.label('%s-%s' % (spec['side'], 'sent' if spec['sent'] else 'received'))
    for c in set(codes): res.label('code:' + c)
    nulls = any((a[0] == 's' and a[1] is None) or (a[0] == 'o' and a[2] is None) for a in spec['args'])
    return (len(codes) >= 2 and ('a' in codes or nulls)) or '?' in spec['signature'] or spec['signature'][:1].isdigit()


class Closures(Stage):
    """direct: extract.received_message()/sent_message() on a generated closure vs the spec"""
    name = 'closures'

    def examples(self, tier):
        return 1500 if tier == 'quick' else 14 * 15000

    def gen(self, d, tier):
        return gen_closure(d)

    def execute(self, spec):
        G = gdbsim.install()
        G.reset()
        env.reset_globals(protocols=False)
        from backends.gdb_plugin import extract
        import importlib
        importlib.reload(extract)
        res = Result()
        b = gdbsim.Builder(G)
        loc, frame = b.frames_for(spec)
        G.state.frame = frame
        extract.time_now = lambda: spec['t_us'] / 1e6
        cid, msg = (extract.sent_message if spec['sent'] else extract.received_message)()
        if msg.name != spec['name']:
            res.bad('name', '%r vs %r' % (msg.name, spec['name']))
        if msg.sent != spec['sent']:
            res.bad('direction', repr(msg.sent))
        if msg.obj.id != spec['sender_id']:
            res.bad('sender-id', '%r vs %r' % (msg.obj.id, spec['sender_id']))
        if not spec['sent'] and msg.obj.type != spec['target_iface']:
            res.bad('interface', '%r vs %r' % (msg.obj.type, spec['target_iface']))
        if spec['sent'] and msg.obj.type not in (None, spec['target_iface']):
            res.bad('interface', '%r vs %r' % (msg.obj.type, spec['target_iface']))
        if cid != 'gdb_conn:' + hex(b.connection(spec['conn']).addr):
            res.bad('connection-id', cid)
        got = [describe(a) for a in msg.args]
        exp = [expected_arg(a, t) for a, t in zip(spec['args'], spec['types'])]
        if len(got) != len(exp):
            res.bad('argcount', 'signature %r: %d arguments reported, %d held' % (spec['signature'], len(got), len(exp)))
        else:
            after_array = False
            for i, (g, e) in enumerate(zip(got, exp)):
                if g != e:
                    kind = '%s->%s' % (e[0], g[0]) if g[0] != e[0] else e[0] + '-value'
                    res.bad('arg:%s%s' % (kind, ':after-array' if after_array else ''),
                            'signature %r argument %d reported %r, closure holds %r' % (spec['signature'], i, g, e))
                    break
                if spec['args'][i][0] == 'a' and spec['args'][i][1]:
                    after_array = True
        # as reported: once the message went through a connection (resolution against the - here absent - descriptions), a nil
        # object argument still carries the interface the closure declares for it
        if not res.discs and any(e[0] == 'Null' and e[1] is not None for e in exp):
            from core import ConnectionManager
            cm = ConnectionManager()
            conn = cm.open_connection(0.0, cid, None)
            try:
                conn.message(msg)
                again = [describe(a) for a in msg.args]
                for i, (g, e) in enumerate(zip(again, exp)):
                    if e[0] == 'Null' and e[1] is not None and g != e:
                        res.bad('arg:Null-interface-lost-when-reported', 'signature %r argument %d declared %r, reported %r' % (spec['signature'], i, e, g))
                        break
                res.count('reported-nil-interfaces-checked')
            except (RuntimeError, AssertionError):
                res.count('resolution-refused(skipped)')
        res.nontrivial = classes(spec, res)
        res.sample = spec
        return res


# ------------------------------------------------------------------------------------------------
# differential: the same history through GDB mode (stand-in) and through log mode

PROFILE = dict(reuse=0.6, weights=dict(repeat=4, newer=4, delete=16, bind=10, message=46, server_event=10, sync=4, enum=8, title=4, retype=12, arrays=12, server_retype=8, twins=8, long_line=3, nulls=8, null_strings=10))
ARR = re.compile(r'\[(?:\.\.\.|[^\[\]\'"]*)\]')      # array contents (elements may carry enum labels) are not retained by the print-out
LIFE = re.compile(r' after -?\d+\.\d{4}s')


def normalise(lines):
    out = []
    for l in lines:
        if session.SEP_LINE.match(l):
            continue
        m = session.MSG_LINE.match(l)
        if m:
            l = m.group(2) + ': ' + m.group(3)
        l = LIFE.sub(' after Ts', ARR.sub('[ARRAY]', l))
        out.append(l)
    return out


def closures_of_history(specs):
    P = histgen.protocols()
    tags, sides = {}, {}
    out = []
    for m in specs:
        tag = m['conn']
        if tag not in tags:
            tags[tag] = len(tags)
        decl = None
        if m['iface'] in P and not (m['iface'] == 'wl_registry' and m['name'] == 'bind'):
            decl = P[m['iface']].msg(m['name'])
        # which side is the debugged program on? a request that is sent is sent by a client
        is_event = decl.is_event if decl is not None else None
        out.append((m, tags[tag], decl, is_event))
    return out


class Differential(Stage):
    name = 'differential'

    def examples(self, tier):
        return 300 if tier == 'quick' else 14 * 1500

    def gen(self, d, tier):
        side = d.choice(['client', 'server'])
        specs = histgen.history(d, nconn=d.int(1, 2), nmsg=d.int(3, 30), profile=PROFILE, tagged=True)
        return dict(specs=specs, vprefix=d.choice(['', '', '2', '5']), threads=[d.choice([1, 1, 2, 3]) for _ in range(d.int(1, 6))])

    def execute(self, case):
        res = Result()
        specs = case['specs']
        # log mode: libwayland's own print-out of the same closures (lossless current dialect)
        s = session.run_history(specs, 'new')
        log_lines = normalise(s.out.buffer.split('\n')[:-1])
        # GDB mode
        drv = gdbsim.Driver()
        try:
            sides = {}
            for m, conn, decl, is_event in closures_of_history(specs):
                if conn not in sides:
                    # the side of the debugged program follows from the first message of the connection
                    ev = is_event if is_event is not None else False
                    sides[conn] = 'client' if (m['sent'] != ev) else 'server'
                c = gdbsim.closure_of_message(m, sides[conn], conn, decl, case.get('vprefix', ''))
                # closures are dispatched on whatever thread the program uses; a warning may go to the error stream, the
                # displayed message must be the same
                threads = case.get('threads') or [1]
                c['thread'] = threads[res.evals % len(threads)]
                c['thread_name'] = None if c['thread'] != 1 else 'main'
                drv.deliver(c)
                res.evals += 1
            for conn in sorted(sides, reverse=True):
                pass
            gdb_lines = normalise(drv.out.buffer.split('\n')[:-1])
            # array elements (only GDB mode has them): element j of the array at argument position i is decorated as
            # argument i would be - never as argument j
            from core import wl
            from core.wl import protocol
            for gm in drv.ctl.all_messages:
                for i, a in enumerate(gm.args):
                    if isinstance(a, wl.Arg.Array) and a.values is not None:
                        # an array whose contents are known shows them - also when there are none
                        from core.util import no_color
                        shown = no_color(str(a)).split('=', 1)[-1] if a.name else no_color(str(a))
                        if not (shown.startswith('[') and shown.endswith(']')) or (shown == '[...]') or (len(a.values) == 0) != (shown == '[]'):
                            res.bad('array-rendering', '%s: array of %d known elements is shown as %r' % (str(gm), len(a.values), shown))
                            break
                    if isinstance(a, wl.Arg.Array) and a.values:
                        res.count('array-elements-checked', len(a.values))
                        for e in a.values:
                            try:
                                exp = protocol.look_up_enum(gm.obj.type, gm.name, i, e.value) if gm.obj.type else []
                            except RuntimeError:
                                exp = []
                            if list(getattr(e, 'labels', [])) != list(exp) or e.name is not None:
                                res.bad('array-element-decoration', '%s: element %r of argument %d is decorated %r (name %r), argument %d would get %r' % (
                                    str(gm), e.value, i, getattr(e, 'labels', []), e.name, i, exp))
                                break
        finally:
            drv.close()
        # connections are closed at end of input in log mode only: compare up to the Closed notices
        log_lines = [l for l in log_lines if not session.CLOSED_LINE.match(l)]
        if gdb_lines != log_lines:
            k = next((i for i, (a, b) in enumerate(zip(gdb_lines, log_lines)) if a != b), min(len(gdb_lines), len(log_lines)))
            ga = gdb_lines[k] if k < len(gdb_lines) else None
            la = log_lines[k] if k < len(log_lines) else None
            kind = 'line'
            if ga and la:
                if "'[null string]'" in ga: kind = 'null-string'
                elif 'unresolved' in ga and 'unresolved' not in la: kind = 'unresolved-in-gdb-mode'
            res.bad('gdb-vs-log:' + kind, 'message %d: GDB mode shows %r, log mode shows %r; gdb err=%r' % (k, ga, la, drv.err.buffer[-200:]))
        for l in histgen.labels_of(specs):
            res.label(l)
        res.nontrivial = len(specs) >= 5 and any(a[0] in ('array', 'obj', 'new') for m in specs for a in m['args'])
        res.sample = dict(lines=[wire.render(m, 'new') for m in specs[:8]])
        return res


class RealGdb(Stage):
    """the same kind of closures through the *real* gdb on a generated C mock of libwayland (struct, member and
    function names as in libwayland), with the unmodified Plugin/extract.py; result compared with the spec and
    with the stand-in"""
    name = 'real-gdb'

    def examples(self, tier):
        return 8 if tier == 'quick' else 14 * 40

    def gen(self, d, tier):
        steps = []
        for _ in range(d.int(3, 12)):
            if d.chance(0.1):
                steps.append(dict(kind='destroy', conn=d.int(0, 2)))
            else:
                steps.append(gen_closure(d, max_args=20))
        return dict(steps=steps)

    def execute(self, case):
        from .. import gdbreal, cli
        res = Result()
        steps = case['steps']
        with cli.Scratch() as sc:
            r = gdbreal.run_steps(steps, sc)
        if r['status'].startswith('skipped'):
            res.label('real-gdb-' + r['status'][:40])
            return res
        if r['status'] != 'ok':
            from ..runner import HarnessError
            raise HarnessError(r['status'])
        recs = r['records']
        if len(recs) != len(steps):
            res.bad('real-gdb:breakpoint-hits', '%d breakpoint hits recorded for %d steps; gdb said %r' % (len(recs), len(steps), r.get('gdb_output', '')[-300:]))
            return res
        # stand-in on the same closures
        G = gdbsim.install()
        G.reset()
        env.reset_globals(protocols=False)
        from backends.gdb_plugin import extract
        import importlib
        importlib.reload(extract)
        b = gdbsim.Builder(G)
        conn_ids = {}
        for k, (st, rec) in enumerate(zip(steps, recs)):
            res.evals += 1
            if st.get('kind') == 'destroy':
                if rec['kind'] != 'destroy':
                    res.bad('real-gdb:step-kind', 'step %d' % k)
                cid = rec['conn']
            else:
                if rec['kind'] != 'msg':
                    res.bad('real-gdb:step-kind', 'step %d' % k)
                    continue
                exp = [expected_arg(a, t) for a, t in zip(st['args'], st['types'])]
                got = rec['args']
                hdr_exp = [st['name'], st['sent'], st['sender_id'], None if st['sent'] else st['target_iface']]
                hdr_got = [rec['name'], rec['sent'], rec['id'], rec['iface']]
                if hdr_got != hdr_exp:
                    res.bad('real-gdb:header', 'step %d: real gdb reports %r, closure holds %r' % (k, hdr_got, hdr_exp))
                if json_norm(got) != json_norm(exp):
                    res.bad('real-gdb:arguments', 'step %d signature %r: real gdb reports %r, closure holds %r' % (k, st['signature'], got, exp))
                loc, frame = b.frames_for(st)
                G.state.frame = frame
                try:
                    _, msg = (extract.sent_message if st['sent'] else extract.received_message)()
                    sim = [describe(a) for a in msg.args]
                    if json_norm(sim) != json_norm(got):
                        res.bad('stand-in-differs-from-real-gdb', 'step %d signature %r: stand-in %r, real gdb %r' % (k, st['signature'], sim, got))
                except Exception as e:
                    res.bad('stand-in-differs-from-real-gdb', 'step %d: stand-in raised %s: %s, real gdb gave %r' % (k, type(e).__name__, e, got))
                cid = rec['conn']
            # same wl_connection <-> same connection id
            prev = conn_ids.setdefault(st['conn'], cid)
            if prev != cid or list(conn_ids.values()).count(cid) != 1:
                res.bad('real-gdb:connection-id', 'step %d: connection index %d has id %r (ids so far %r)' % (k, st['conn'], cid, conn_ids))
        res.nontrivial = any(classes(st, Result()) for st in steps if st.get('kind') != 'destroy')
        res.label('real-gdb-ran')
        res.sample = dict(steps=len(steps), first=steps[0])
        return res


def json_norm(x):
    import json, math
    def f(v):
        if isinstance(v, float):
            return 'nan' if math.isnan(v) else v
        if isinstance(v, (list, tuple)):
            return [f(i) for i in v]
        return v
    return json.dumps(f(x), sort_keys=True)


class C09(Prop):
    id = 'C09'
    rule = ('closures: generated closures (signature over i u f s o n a h with optional version digits and ? markers, 0-20 arguments, every kind '
            'in every position incl. after arrays, null/non-null strings and objects, typed/untyped new ids, arrays of 0-16 ints, client/server x '
            'sent/received) laid out in a symbolic stand-in for the gdb module with poisoned union members; extract.received_message()/'
            'sent_message() must report exactly what the closure holds (fixed = f/256). differential: generated well-formed histories delivered '
            'closure by closure through the real Plugin breakpoints (stand-in) and, as libwayland\'s print-out, through log mode; the two displays '
            'must agree up to array contents and time-valued text. real-gdb: sequences of such closures compiled into a C mock of libwayland '
            '(names as in libwayland) and run under the real gdb with the unmodified plugin; records compared with the spec and the stand-in. non-trivial = >= 2 arguments incl. an array or a null, or a signature with '
            'version digit/? / a history of >= 5 messages with object, new-id or array arguments; distinct by SHA-1 of the case.')
    assumptions = ['fakegdb models the gdb Python API symbolically; struct/field/frame names as in libwayland (extract.py addresses members by name)',
                   'real libwayland with debug symbols is not available in the sandbox']
    stages = [Closures(), Differential(), RealGdb()]


gdbsim.install()
PROP = C09()
