"""C12 - filter/breakpoint commands accumulate alternatives and exclusions."""
from .. import env, histgen, session, wire, scripts, refmatch as rm
from ..runner import Prop, Stage, Result

PROFILE = dict(reuse=0.6, weights=dict(newer=4, delete=14, bind=14, message=50, server_event=8, sync=6, enum=8))
MALFORMED = ['(', 'a.b.c', '[x', 'x ! y ! z', 'wl_a@5', 'a(b)c', 'x, (', '! [', '5zz9.']
EXOTIC = ['é', 'Ω', 'ü', '٣', '²', 'ⅷ', 'ß', 'я', '字', '\u00a0', '\u200b', 'İ']


def atom_text(d, g):
    """one alternative (a pattern, never a list at top level)"""
    if d.chance(0.12):
        # "twins": atoms of different kind that read alike (a quoted string and a bare word, a type and a label)
        w = d.choice((g.V.get('str') or []) + (g.V.get('label') or []) + (g.V.get('type') or []) + ['wl_seat', 'wl_shm'])
        w = str(w)
        import re as _re
        if _re.fullmatch(r'[A-Za-z_][A-Za-z0-9_]*', w) and w.lower() not in ('nil', 'inf', 'nan', 'infinity'):
            return d.choice(['("%s")' % w, '(%s)' % w, '.("%s")' % w, '.(%s)' % w])
    if d.chance(0.2):
        return d.choice(['wl_display', 'wl_registry', '.bind', '.delete_id', '2', '3a', 'wl_*', '.new', '.destroyed', 'A:', 'B:', '(nil)', 'wl_callback.done', '#2', '#3a', '@2', '@3', '#1'])
    p = g.pattern()
    if p[0] in ('star', 'bang'):
        p = ['bare', None, ['id', 2]]
    return rm.r_pattern(p, rm.Plain())


from ..accmodel import Model, atom_matcher      # noqa: E402  (accumulator over atoms: alternatives, exclusions, star flag, constants)


SPELLINGS = dict(filter=['filter', 'f', 'fi', 'filt', 'wl filter', 'wlfilter', 'w f', 'wl  fil'],
                 breakpoint=['breakpoint', 'b', 'br', 'break', 'wl breakpoint', 'wlbreakpoint', 'w b', 'wl  brea'])

class Sequences(Stage):
    name = 'sequences'

    def examples(self, tier):
        return 800 if tier == 'quick' else 14 * 5000

    def gen(self, d, tier):
        specs = histgen.history(d, nconn=d.int(1, 2), nmsg=d.int(8, 30), profile=PROFILE)
        g = rm.Gen(d, rm.vocab(specs), 1)
        which = d.choice(['filter', 'breakpoint', 'both', 'both'])
        initial = None
        ik = d.weighted([(55, 'none'), (25, 'atoms'), (20, 'collapse')])
        if ik == 'atoms':
            initial = dict(alts=[atom_text(d, g) for _ in range(d.int(1, 2))], excl=[atom_text(d, g) for _ in range(d.int(0, 1))])
        elif ik == 'collapse':
            # command-line matchers that collapse to a constant
            initial = d.choice([dict(raw='!'), dict(raw='*'), dict(alts=[atom_text(d, g)], excl=['*']), dict(alts=['*.*'], excl=[]), dict(alts=['*'], excl=[]), dict(raw='!')])
        cmds = []
        for _ in range(d.int(1, 8)):
            k = d.weighted([(1, 'star'), (1, 'bang'), (3, 'bad'), (7, 'alts'), (6, 'excl'), (1, 'star+'), (5, 'both')])
            if k == 'star': cmds.append(dict(raw='*'))
            elif k == 'bang': cmds.append(dict(raw='!'))
            elif k == 'bad':
                earlier = [c for c in cmds if c.get('malformed')]
                if earlier and d.chance(0.5):
                    cmds.append(dict(earlier[-1]))      # the very same malformed text again: reported again
                elif d.chance(0.5):
                    cmds.append(dict(raw=d.choice(MALFORMED), malformed=True))
                else:
                    # a well-formed alternative with a character outside ASCII put somewhere into it: accepted or reported, never anything else
                    t = atom_text(d, g)
                    pos = d.int(0, len(t))
                    if d.chance(0.5):
                        import re as _re
                        ends = [mm.end() for mm in _re.finditer(r'\d+', t)]
                        if ends:
                            pos = d.choice(ends)      # directly after a number (an object id, an integer value)
                    cmds.append(dict(raw=t[:pos] + d.choice(EXOTIC) + t[pos:], maybe=True))
            elif k == 'alts': cmds.append(dict(alts=[atom_text(d, g) for _ in range(d.int(1, 3))], excl=[]))
            elif k == 'excl': cmds.append(dict(alts=[], excl=[atom_text(d, g) for _ in range(d.int(1, 2))]))
            elif k == 'star+': cmds.append(dict(alts=['*'] + [atom_text(d, g) for _ in range(d.int(0, 1))], excl=[atom_text(d, g) for _ in range(d.int(0, 1))]))
            else: cmds.append(dict(alts=[atom_text(d, g) for _ in range(d.int(1, 2))], excl=[atom_text(d, g) for _ in range(d.int(1, 2))]))
        twins = None
        if d.chance(0.45):
            # a pair of twins (same spelling, different kind: bare word vs quoted string) accumulated by two consecutive
            # commands on the same matcher; spelled like a string that occurs in the history when there is one
            import re as _re
            ids = [x for x in (g.V.get('str') or []) if _re.fullmatch(r'[A-Za-z_][A-Za-z0-9_]*', x) and x.lower() not in ('nil', 'inf', 'nan', 'infinity')]
            w = d.choice(ids) if ids else d.choice(['wl_seat', 'wl_shm'])
            pair = ['(%s)' % w, '("%s")' % w]
            if d.chance(0.5):
                pair.reverse()
            side = d.choice(['alts', 'alts', 'excl'])
            twins = [dict(alts=[t], excl=[]) if side == 'alts' else dict(alts=[], excl=[t]) for t in pair]
            if side == 'excl':
                twins.insert(0, dict(raw='*'))
            cmds += twins
        if which == 'both':
            for c in cmds:
                c['which'] = d.choice(['filter', 'breakpoint'])
            if twins:
                for c in twins:
                    c['which'] = twins[0]['which']
        # now and then the same commands over and over: matchers accumulated by hundreds of commands
        repeat = d.int(15, 50) if d.chance(0.07) else None
        if d.chance(0.5):
            for c in cmds:
                if d.chance(0.6):
                    c['spell'] = d.int(0, 7)
        return dict(specs=specs, which=which, initial=initial, cmds=cmds, repeat=repeat, at_prompt=d.chance(0.4))

    @staticmethod
    def text_of(c):
        if 'raw' in c:
            return c['raw']
        t = ', '.join(c['alts'])
        if c['excl']:
            t += ' ! ' + ', '.join(c['excl'])
        return t.strip() if c['alts'] else t.strip()

    def execute(self, case):
        from core import matcher
        from core.util import no_color
        res = Result()
        res.evals = 0
        if case.get('repeat'):
            case = dict(case, cmds=[dict(c) for _ in range(case['repeat']) for c in case['cmds']])
            res.label('commands>=%d' % (50 if len(case['cmds']) >= 50 else 15))
        which0 = case['which']
        init = self.text_of(case['initial']) if case['initial'] else None
        first = 'filter' if which0 in ('filter', 'both') else 'breakpoint'
        s = session.Session()
        if init is not None:
            # the initial matcher comes from the command line: take it from parse_args as main.py does
            import io, contextlib
            from frontends.tui.arguments import parse_args
            with contextlib.redirect_stdout(io.StringIO()), contextlib.redirect_stderr(io.StringIO()):
                a = parse_args(['main.py', '-p', '-f' if first == 'filter' else '-b', init])
            if first == 'filter':
                s.ctl.display_matcher = a.filter_matcher
            else:
                s.ctl.stop_matcher = a.stop_matcher
        specs = case['specs']
        tail = min(8, len(specs) // 3)
        lines = [['line', wire.render(m, 'new')] for m in specs]
        state = {}

        def phase(sess, text):
            state['ran'] = True
            self.commands_phase(case, s, res, first, init, state)
        s.run_command = lambda text: phase(s, text)
        segs = s.run(lines[:len(specs) - tail] + [['cmd', '(the filter / breakpoint commands of the case)']] + lines[len(specs) - tail:])
        if not state.get('ran'):
            raise RuntimeError('command phase did not run')
        # the messages that arrive afterwards: shown iff the accumulated filter selects them, "Stopped at" iff the accumulated breakpoint does
        if state.get('models') is not None:
            from core.util import no_color
            models, parsed = state['models'], state['parsed']
            allm = s.messages()
            k = len(specs) - tail
            for seg, m in zip([g for g in segs if g.kind == 'line'][k:], allm[k:]):
                out = seg.out_lines()
                shown = any(session.MSG_LINE.match(l) for l in out)
                stopped = any(l.startswith('    Stopped at ') for l in out)
                for what, got, w in (('shown', shown, 'filter'), ('stopped-at', stopped, 'breakpoint')):
                    exp = models[w].expect(parsed, m)
                    res.evals += 1
                    if exp is not None and exp != got:
                        res.bad('live:%s-%s' % (what, 'missing' if exp else 'unexpected'), 'after the commands %r, %s arrived: %s=%r, accumulated %s alternatives %r exclusions %r star=%r const=%r' % (
                            [(x.get('which', first)[0] + ': ' + self.text_of(x)) for x in case['cmds']], no_color(str(m)), what, got, w, models[w].P, models[w].N, models[w].star, models[w].const))
                    elif exp is not None:
                        res.count('live-' + what + '-checked')
        res.nontrivial = state.get('nontrivial', False)
        res.label(which0)
        if any(c.get('malformed') for c in case['cmds']): res.label('malformed-command')
        if any(c.get('maybe') for c in case['cmds']): res.label('non-ascii-in-matcher')
        if any(c.get('raw') == '*' or '*' in c.get('alts', []) for c in case['cmds']): res.label('star-alternative')
        if any(c.get('raw') == '!' for c in case['cmds']): res.label('bang-reset')
        if case['initial']: res.label('initial-from-option')
        if case.get('at_prompt'): res.label('typed-at-the-prompt')
        res.sample = dict(which=which0, initial=init, commands=[(c.get('which', first) + ' ' + self.text_of(c)) for c in case['cmds']], messages=len(specs))
        return res

    def commands_phase(self, case, s, res, first, init, state):
        from core import matcher
        from core.util import no_color
        msgs = s.messages()
        models = dict(filter=Model(matcher, 'star'), breakpoint=Model(matcher, 'bang'))
        parsed = {}

        def learn(atoms):
            for a in atoms:
                if a not in parsed:
                    parsed[a] = atom_matcher(matcher, a)

        def current(w):
            return s.ctl.display_matcher if w == 'filter' else s.ctl.stop_matcher
        if case['initial']:
            if case['initial'].get('raw') == '!':
                models[first].reset_never()
            elif case['initial'].get('raw') == '*':
                models[first].apply(['*'], [])
            else:
                learn(case['initial']['alts'] + case['initial']['excl'])
                models[first].apply(case['initial']['alts'], case['initial']['excl'])
        ok_cmds = 0
        excl_step = alt_step = None
        mixed = False
        import time as _time
        t_start = _time.monotonic()
        for step, c in enumerate(case['cmds']):
            if _time.monotonic() - t_start > 15:
                # a case that takes this long says nothing about the property (never a violation); the other cases go on
                res.label('slow-case(inconclusive)')
                state['models'] = None
                return
            which = c.get('which', first)
            other = 'breakpoint' if which == 'filter' else 'filter'
            model = models[which]
            text = self.text_of(c)
            n_out, n_err = len(s.out.buffer), len(s.err.buffer)
            before = [current(which).matches(m) for m in msgs]
            other_before = [current(other).matches(m) for m in msgs]
            # the command by its full name, an abbreviation, or one of the spellings GDB mode offers (drawn per command)
            word = SPELLINGS[which][c['spell'] % len(SPELLINGS[which])] if 'spell' in c else which
            if case.get('at_prompt'):
                s.type_at_prompt(word + ' ' + text)      # typed at the `wl debug $` prompt, as in file and run mode
            else:
                s.ctl.process_command(word + ' ' + text)
            out = s.out.buffer[n_out:]
            err = s.err.buffer[n_err:]
            cur = current(which)
            if [current(other).matches(m) for m in msgs] != other_before:
                res.bad('command-changes-the-other-matcher', '`%s %s` changed what the %s matcher selects' % (which, text, other))
            if c.get('maybe'):
                if 'Failed to parse' in err:
                    if [cur.matches(m) for m in msgs] != before:
                        res.bad('malformed-changes-matcher', 'after `%s %s` the matcher selects differently' % (which, text))
                    res.count('non-ascii-rejected')
                    continue
                res.count('non-ascii-accepted')
                c = dict(c, alts=[text], excl=[])
                if not ('!' not in text and ',' not in text):
                    state['models'] = None      # not a single alternative any more: the model cannot follow
                    return
            if c.get('malformed'):
                if 'Failed to parse' not in err:
                    res.bad('malformed-not-reported', '%r: err=%r' % (text, err))
                after = [cur.matches(m) for m in msgs]
                if after != before:
                    res.bad('malformed-changes-matcher', 'after `%s %s` the matcher selects differently' % (which, text))
                continue
            if 'Failed to parse' in err:
                res.bad('wellformed-rejected', '`%s %s`: %s' % (which, text, no_color(err)[:200]))
                continue
            want = 'Only showing messages that match' if which == 'filter' else 'Breaking on messages that match'
            if want not in out:
                res.bad('confirmation-line-missing', '`%s %s` printed %r' % (which, text, out[:200]))
            if c.get('raw') == '!':
                model.reset_never()
            elif c.get('raw') == '*':
                model.apply(['*'], [])
            else:
                learn(c['alts'] + c['excl'])
                model.apply(c['alts'], c['excl'])
                if c['excl'] and excl_step is None: excl_step = step
                if c['alts'] and alt_step is None: alt_step = step
            ok_cmds += 1
            sel = 0
            for w in (which, other):
                for m in msgs:
                    exp = models[w].expect(parsed, m)
                    got = current(w).matches(m)
                    res.evals += 1
                    if w == which:
                        sel += bool(got)
                    if exp is None:
                        res.count('unspecified-absorbed-alternative')
                    elif exp != got:
                        hist = [(x.get('which', first)[0] + ': ' + self.text_of(x)) for x in case['cmds'][:step + 1]]
                        res.bad('accumulation:%s%s' % ('lost-or-over-excluded' if exp else 'selects-excluded-or-unlisted', '' if w == which else ':other-matcher'),
                                '%s after %r (initial %s %r): %s selected=%r, accumulated alternatives %r exclusions %r star=%r const=%r' % (
                                    w, hist, first, init, no_color(str(m)), got, models[w].P, models[w].N, models[w].star, models[w].const))
                        break
            if 0 < sel < len(msgs):
                mixed = True
        state['nontrivial'] = ok_cmds >= 3 and excl_step is not None and alt_step is not None and excl_step != alt_step and mixed
        state['models'], state['parsed'] = models, parsed


class C12(Prop):
    id = 'C12'
    rule = ('sequences of 1-8 filter/breakpoint commands (alternatives only, exclusions only, both, *, !, malformed text) from each initial value '
            '(default or a generated -f/-b), atoms from the C05 pattern generator against the vocabulary of a generated history; after every '
            'command every message of the history is evaluated against an accumulator model (alternatives, exclusions, star flag, constants) '
            'whose atoms are parsed independently; malformed text must be reported and change nothing. non-trivial = >= 3 accepted commands '
            'with an exclusion and an alternative added in different steps and a result that is neither all nor none; distinct by SHA-1. 40 % of the cases type their commands at the tool\'s own prompt (TerminalUI); 7 % repeat their commands 15-50 times.')
    assumptions = ['messages matched only by alternatives that a `*` absorbed are unspecified (skipped and counted)',
                   'matcher meaning of a single atom is C05\'s business (atoms are parsed independently)']
    stages = [Sequences()]


PROP = C12()
