"""Independent reader of the shipped protocol XML (oracle side; does not import core.wl.protocol)."""
import os, xml.etree.ElementTree as ET, collections

def enum_value(text):
    t = text.strip()
    if '<<' in t:
        a, b = t.split('<<')
        return int(a.strip(), 0) << int(b.strip(), 0)
    return int(t, 0)

class PArg:
    def __init__(s, e):
        s.name = e.get('name'); s.type = e.get('type'); s.interface = e.get('interface')
        s.enum = e.get('enum'); s.allow_null = e.get('allow-null') == 'true'
    def key(s): return (s.name, s.type, s.interface, s.enum, s.allow_null)
    def skey(s): return (s.name, s.type, s.interface, s.allow_null)
class PMsg:
    def __init__(s, e):
        s.name = e.get('name'); s.is_event = e.tag == 'event'
        s.args = [PArg(a) for a in e if a.tag == 'arg']
        s.destructor = e.get('type') == 'destructor'
    def key(s): return (s.name, s.is_event, tuple(a.key() for a in s.args))
    def skey(s): return (s.name, s.is_event, tuple(a.skey() for a in s.args))
class PEnum:
    def __init__(s, e):
        s.name = e.get('name'); s.bitfield = e.get('bitfield', 'false') == 'true'
        s.entries = [(x.get('name'), enum_value(x.get('value'))) for x in e if x.tag == 'entry']
    def key(s): return (s.name, s.bitfield, tuple(s.entries))
class PIface:
    def __init__(s, e, path):
        s.name = e.get('name'); s.version = int(e.get('version')); s.path = path
        s.msgs = [PMsg(m) for m in e if m.tag in ('request', 'event')]
        s.enums = {x.name: x for x in (PEnum(n) for n in e if n.tag == 'enum')}
    def key(s): return (tuple(m.key() for m in s.msgs), tuple(sorted((k, v.key()) for k, v in s.enums.items())))
    def msg(s, name):
        r = [m for m in s.msgs if m.name == name]
        return r[-1] if r else None

def read_all(root):
    descs = collections.defaultdict(list)
    for d, _, fs in sorted(os.walk(root)):
        for f in sorted(fs):
            if f.endswith('.xml'):
                p = os.path.join(d, f)
                r = ET.parse(p).getroot()
                for i in r:
                    if i.tag == 'interface':
                        pi = PIface(i, p); descs[pi.name].append(pi)
    return descs

def winners(descs):
    """name -> (list of max-version candidates, unambiguous?)"""
    out = {}
    for n, l in descs.items():
        mx = max(i.version for i in l)
        c = [i for i in l if i.version == mx]
        out[n] = (c, len({i.key() for i in c}) == 1)
    return out


def structural(descs):
    """name -> (one maximal-version description, [messages whose structure (argument names, types,
    interfaces, nullability - not the enum tags) is the same in every maximal-version description])"""
    out = {}
    for n, (cands, _) in winners(descs).items():
        keys = [set(m.skey() for m in c.msgs) for c in cands]
        common = set.intersection(*keys)
        out[n] = (cands[0], [m for m in cands[0].msgs if m.skey() in common])
    return out


def decode(enum, v):
    """the documented decoding of an enum-typed integer"""
    if enum.bitfield:
        names = [n for n, val in enum.entries if val & v]
        return names or ['(none)']
    names = [n for n, val in enum.entries if val == v]
    return names or ['INVALID ENUM VALUE']


def enum_candidates(iface_cand, path, winners_map):
    """enums an enum attribute can denote: `name` in the same description, or `iface.name` in any
    maximal-version description of the other interface"""
    parts = path.split('.')
    if len(parts) == 1:
        e = iface_cand.enums.get(parts[0])
        return [e] if e is not None else []
    other = winners_map.get(parts[-2])
    if other is None:
        return []
    return [c.enums[parts[-1]] for c in other[0] if parts[-1] in c.enums]
