"""Check runner: tiers, seeds, sharding, collect -> bucket -> shrink -> replay, evidence, findings.

    ./check <ID> [--tier quick|thorough] [--replay PATH] [--seed N] [--workers N] [--scale F]

Exit 0: property held on everything explored (KNOWN-FINDING lines may be printed).
Exit 1: at least one line `VIOLATION property=<ID> replay=<path>` was printed.
Exit 2: harness error / inconclusive (never reported as a violation).
"""
import os, sys, json, time, hashlib, argparse, importlib, traceback, collections, glob, re

from . import env

VERIF = env.VERIF
MAX_SAMPLES = 5
MAX_BUCKETS_SHRUNK = 5
MAX_FAILING_CASES = 25          # per shard: on a clearly broken tree there is no point in generating on


# ------------------------------------------------------------------------------------------------
# small data types

class Result:
    """What executing one case told us."""
    def __init__(self):
        self.discs = []            # [(bucket, message)]
        self.nontrivial = False
        self.labels = set()        # case classes (histogram in the evidence)
        self.evals = 1             # elementary evaluations (messages compared, matcher x message, ...)
        self.counters = collections.Counter()
        self.sample = None         # optional compact rendering of the case for the evidence

    def bad(self, bucket, message=''):
        self.discs.append((str(bucket), str(message)[:2000]))

    def label(self, *names):
        for n in names:
            self.labels.add(n)

    def count(self, name, n=1):
        self.counters[name] += n


class HarnessError(Exception):
    pass


def canon(case):
    return json.dumps(case, sort_keys=True, ensure_ascii=True, separators=(',', ':'), default=str)


def digest(case):
    return hashlib.sha1(canon(case).encode()).hexdigest()


class Draw:
    """Every random choice of every generator goes through here, i.e. through Hypothesis draws
    (shrinkable, replayable, a pure function of the seed)."""
    def __init__(self, data):
        from hypothesis import strategies as st
        self.d = data
        self.st = st

    def int(self, a, b):
        return self.d.draw(self.st.integers(a, b))

    def choice(self, seq):
        seq = list(seq)
        if len(seq) == 1:
            return seq[0]
        return seq[self.d.draw(self.st.integers(0, len(seq) - 1))]

    def chance(self, p):
        # shrinks towards False
        if p <= 0:
            return False
        if p >= 1:
            return True
        return self.d.draw(self.st.integers(0, 999)) >= 1000 - int(round(p * 1000))

    def weighted(self, pairs):
        """pairs: [(weight:int, value)]"""
        total = sum(w for w, _ in pairs)
        k = self.int(0, total - 1)
        for w, v in pairs:
            if k < w:
                return v
            k -= w
        return pairs[-1][1]

    def text(self, alphabet, lo=0, hi=10):
        return self.d.draw(self.st.text(alphabet=alphabet, min_size=lo, max_size=hi))

    def draw(self, strategy):
        return self.d.draw(strategy)

    def perm(self, seq):
        return list(self.d.draw(self.st.permutations(list(seq))))

    def subset(self, seq, lo=0, hi=None):
        seq = list(seq)
        hi = len(seq) if hi is None else min(hi, len(seq))
        return self.d.draw(self.st.lists(self.st.sampled_from(seq), min_size=lo, max_size=hi, unique=True)) if seq else []


class Stage:
    """One way of exploring a property. kind: 'given' (gen+execute), 'enum' (cases()+execute),
    'machine' (Hypothesis RuleBasedStateMachine from machine()), 'custom' (run())."""
    name = 'main'
    kind = 'given'
    tiers = ('quick', 'thorough')
    exhaustive = False
    python = None                  # other interpreter for this stage (custom stages only)

    def examples(self, tier):
        return 200 if tier == 'quick' else 2000

    def steps(self, tier):         # machines
        return 30 if tier == 'quick' else 60

    def gen(self, d, tier):
        raise NotImplementedError

    def execute(self, case):
        raise NotImplementedError

    def cases(self, tier):         # enum
        raise NotImplementedError

    def machine(self, ctx, tier):
        raise NotImplementedError

    def run(self, ctx, tier, seed, nshards, shard):
        raise NotImplementedError

    def sample(self, case):
        return case


class Prop:
    id = None
    rule = ''
    assumptions = []
    stages = []

    def stage(self, name):
        for s in self.stages:
            if s.name == name:
                return s
        raise HarnessError('no stage %r in %s' % (name, self.id))


def load_prop(pid):
    mod = importlib.import_module('wdverif.props.' + pid.lower())
    return mod.PROP


# ------------------------------------------------------------------------------------------------
# collector

class Collector:
    def __init__(self, prop_id, stage_name, shrink_bucket=None, deadline=None):
        self.prop_id = prop_id
        self.stage_name = stage_name
        self.evaluations = 0            # cases executed
        self.sub_evals = 0
        self.nontrivial = set()         # digests
        self.all_digests = 0
        self.samples = []
        self.labels = collections.Counter()
        self.counters = collections.Counter()
        self.discs = {}                 # bucket -> dict(count, case, msg, size)
        self.harness_errors = []
        self.shrink_bucket = shrink_bucket
        self.deadline = deadline
        self.best = None                # smallest failing case for shrink_bucket
        self.failing_cases = 0
        self.enough = False             # plenty of failing cases collected: stop generating (a clearly broken tree)
        self.timed_out = False

    # -- used by stages
    def add(self, stage, case, res):
        """Record one executed case. In shrink mode raise when the wanted bucket is present."""
        self.evaluations += 1
        self.sub_evals += res.evals
        for l in res.labels:
            self.labels[l] += 1
        self.counters.update(res.counters)
        if res.nontrivial:
            dg = digest(case)
            if dg not in self.nontrivial:
                self.nontrivial.add(dg)
                if len(self.samples) < MAX_SAMPLES:
                    self.samples.append(res.sample if res.sample is not None else stage.sample(case))
        if res.discs and self.shrink_bucket is None:
            self.failing_cases += 1
            if self.failing_cases >= MAX_FAILING_CASES:
                self.enough = True
        hit = None
        for bucket, msg in res.discs:
            e = self.discs.get(bucket)
            size = len(canon(case))
            if e is None:
                self.discs[bucket] = dict(count=1, case=case, msg=msg, size=size)
            else:
                e['count'] += 1
                if size < e['size']:
                    e.update(case=case, msg=msg, size=size)
            if self.shrink_bucket is not None and bucket == self.shrink_bucket and hit is None:
                hit = (case, msg, size)
        if hit is not None:
            if self.best is None or hit[2] <= self.best[2]:
                self.best = hit
            raise AssertionError('bucket ' + self.shrink_bucket)

    def check_deadline(self):
        if self.deadline is not None and time.time() > self.deadline:
            raise KeyboardInterrupt('shrink budget exhausted')
        if self.enough:
            raise KeyboardInterrupt('enough failing cases collected')

    def summary(self):
        return dict(
            evaluations=self.evaluations, sub_evals=self.sub_evals, nontrivial=sorted(self.nontrivial),
            samples=self.samples, labels=dict(self.labels), counters=dict(self.counters),
            discs=self.discs, harness_errors=self.harness_errors, timed_out=self.timed_out, stopped_early=self.enough)


def safe_execute(stage, case):
    """Run the oracle on one case. An exception with a frame inside the repository is the tool's
    (a discrepancy, bucketed by type and innermost repository frame); anything else is ours."""
    try:
        return stage.execute(case)
    except (KeyboardInterrupt, HarnessError):
        raise
    except BaseException as e:
        if type(e).__module__.startswith('hypothesis'):
            raise
        frames = env.repo_frames(e.__traceback__)
        if not frames:
            raise HarnessError('exception in harness while executing a case: ' + ''.join(
                traceback.format_exception(type(e), e, e.__traceback__))[-3000:]) from e
        res = Result()
        f = frames[-1]
        res.bad('crash:%s@%s:%s' % (type(e).__name__, f[0], f[2]),
                '%s: %s at %s:%d' % (type(e).__name__, e, f[0], f[1]))
        res.sample = None
        return res


# ------------------------------------------------------------------------------------------------
# running one shard of one stage

def derive_seed(seed, prop_id, stage_name, shard):
    h = hashlib.sha1(('%d/%s/%s/%d' % (seed, prop_id, stage_name, shard)).encode()).digest()
    return int.from_bytes(h[:6], 'big')


def _hyp_settings(n, phases=None, steps=None):
    from hypothesis import settings, HealthCheck, Phase, Verbosity
    kw = dict(max_examples=n, database=None, deadline=None, derandomize=False, report_multiple_bugs=False,
              suppress_health_check=[HealthCheck.too_slow, HealthCheck.data_too_large,
                                     HealthCheck.large_base_example, HealthCheck.filter_too_much],
              phases=phases or (Phase.generate,), verbosity=Verbosity.quiet)
    if steps is not None:
        kw['stateful_step_count'] = steps
    return settings(**kw)


def run_shard(prop_id, stage_name, tier, seed, shard, nshards, n, shrink_bucket=None, budget=None):
    """Executed in a worker process (or inline). Returns the collector summary (JSON-able apart
    from nothing) plus, in shrink mode, the best failing case."""
    import hypothesis
    from hypothesis import given, strategies as st, Phase
    env.install_logging()
    prop = load_prop(prop_id)
    stage = prop.stage(stage_name)
    deadline = time.time() + budget if budget else None
    col = Collector(prop_id, stage_name, shrink_bucket, deadline)
    hseed = derive_seed(seed, prop_id, stage_name, shard)
    # wall-clock guard per shard: a budget hit is "inconclusive" (or, when discrepancies were already collected, simply the end
    # of the search), never by itself a violation
    import signal
    shard_budget = int(os.environ.get('WDV_SHARD_BUDGET', '0')) or (200 if tier == 'quick' else 5400)

    def on_alarm(signum, frame):
        col.timed_out = True
        raise KeyboardInterrupt('shard budget exhausted')
    try:
        signal.signal(signal.SIGALRM, on_alarm)
        signal.alarm(shard_budget if shrink_bucket is None else 0)
    except (ValueError, AttributeError):
        pass
    phases = (Phase.generate, Phase.shrink) if shrink_bucket is not None else (Phase.generate,)
    t0 = time.time()
    try:
        if stage.kind == 'given':
            @hypothesis.seed(hseed)
            @_hyp_settings(n, phases)
            @given(st.data())
            def test(data):
                col.check_deadline()
                case = stage.gen(Draw(data), tier)
                res = safe_execute(stage, case)
                col.add(stage, case, res)
            test()
        elif stage.kind == 'machine':
            from hypothesis.stateful import run_state_machine_as_test
            cls = stage.machine(col, tier)
            run_state_machine_as_test(hypothesis.seed(hseed)(cls), settings=_hyp_settings(n, phases, stage.steps(tier)))
        elif stage.kind == 'enum':
            for i, case in enumerate(stage.cases(tier)):
                if i % nshards != shard:
                    continue
                res = safe_execute(stage, case)
                try:
                    col.add(stage, case, res)
                except AssertionError:
                    break
                if col.enough:
                    break
        elif stage.kind == 'custom':
            stage.run(col, tier, hseed, nshards, shard)
        else:
            raise HarnessError('unknown stage kind ' + stage.kind)
    except AssertionError:
        if shrink_bucket is None:
            raise
    except KeyboardInterrupt:
        if shrink_bucket is None and not (col.enough or col.timed_out):
            raise
    except HarnessError as e:
        col.harness_errors.append(str(e))
    except BaseException as e:
        if shrink_bucket is not None and col.best is not None:
            pass
        else:
            col.harness_errors.append(''.join(traceback.format_exception(type(e), e, e.__traceback__))[-3000:])
    try:
        signal.alarm(0)
    except Exception:
        pass
    s = col.summary()
    s['wall'] = time.time() - t0
    s['best'] = col.best
    return s


def _worker(args):
    try:
        return run_shard(*args)
    except BaseException as e:
        return dict(evaluations=0, sub_evals=0, nontrivial=[], samples=[], labels={}, counters={}, discs={},
                    harness_errors=[''.join(traceback.format_exception(type(e), e, e.__traceback__))[-3000:]],
                    wall=0, best=None, timed_out=False, stopped_early=False)


# ------------------------------------------------------------------------------------------------
# findings file

def read_findings(prop_id):
    known, fixed = {}, []
    p = os.path.join(VERIF, 'known_findings.txt')
    if os.path.exists(p):
        for line in open(p, encoding='utf-8'):
            line = line.strip()
            if not line or line.startswith('#'):
                continue
            m = re.match(r'known:\s+property=(\S+)\s+id=(\S+)\s+replay=(\S+)\s+(.*)$', line)
            if m and m.group(1) == prop_id:
                known[m.group(2)] = dict(replay=m.group(3), text=m.group(4))
            m = re.match(r'fixed:\s+property=(\S+)\s+(\S+)\s+(.*)$', line)
            if m and m.group(1) == prop_id:
                fixed.append((m.group(2), m.group(3)))
    return known, fixed


# ------------------------------------------------------------------------------------------------
# main

def merge(into, s):
    into['evaluations'] += s['evaluations']
    into['sub_evals'] += s['sub_evals']
    into['nontrivial'].update(s['nontrivial'])
    for x in s['samples']:
        if len(into['samples']) < MAX_SAMPLES and x not in into['samples']:
            into['samples'].append(x)
    for k, v in s['labels'].items():
        into['labels'][k] += v
    for k, v in s['counters'].items():
        into['counters'][k] += v
    into['harness_errors'] += s['harness_errors']


def write_violation(prop_id, stage_name, bucket, msg, case):
    d = os.path.join(VERIF, 'out', 'violations', prop_id)
    os.makedirs(d, exist_ok=True)
    rec = dict(property=prop_id, stage=stage_name, bucket=bucket, message=msg, case=case)
    path = os.path.join(d, hashlib.sha1((bucket + canon(case)).encode()).hexdigest()[:16] + '.json')
    with open(path, 'w', encoding='utf-8') as f:
        json.dump(rec, f, indent=1, ensure_ascii=True, default=str)
    return path


def replay_file(prop, path):
    rec = json.load(open(path, encoding='utf-8'))
    stage = prop.stage(rec.get('stage', prop.stages[0].name))
    env.install_logging()
    res = safe_execute(stage, rec['case'])
    return rec, res


def main(argv=None):
    ap = argparse.ArgumentParser()
    ap.add_argument('prop')
    ap.add_argument('--tier', default=os.environ.get('VERIF_TIER', 'quick'), choices=['quick', 'thorough'])
    ap.add_argument('--replay')
    ap.add_argument('--seed', type=int, default=None)
    ap.add_argument('--workers', type=int, default=None)
    ap.add_argument('--scale', type=float, default=float(os.environ.get('WDV_SCALE', '1')))
    ap.add_argument('--stage', action='append')
    ap.add_argument('--no-evidence', action='store_true')
    a = ap.parse_args(argv)
    prop_id = a.prop.upper()
    try:
        seed = a.seed if a.seed is not None else int(os.environ.get('VERIF_SEED', '1') or '1')
    except ValueError:
        seed = 1
    t0 = time.time()
    try:
        prop = load_prop(prop_id)
    except Exception:
        traceback.print_exc()
        print('HARNESS-ERROR property=%s cannot load property module' % prop_id, file=sys.stderr)
        return 2
    known, fixed = read_findings(prop_id)

    # ---- replay of one file
    if a.replay:
        try:
            rec, res = replay_file(prop, a.replay)
        except HarnessError as e:
            print('HARNESS-ERROR', e, file=sys.stderr)
            return 2
        viol = 0
        for bucket, msg in res.discs:
            if bucket in known:
                print('KNOWN-FINDING: property=%s %s [%s]' % (prop_id, known[bucket]['text'], bucket))
            else:
                print('discrepancy [%s] %s' % (bucket, msg))
                viol += 1
        if viol:
            print('VIOLATION property=%s replay=%s' % (prop_id, a.replay))
            return 1
        print('replay of %s: property held (%d evaluations)' % (a.replay, res.evals))
        return 0

    total = dict(evaluations=0, sub_evals=0, nontrivial=set(), samples=[], labels=collections.Counter(),
                 counters=collections.Counter(), harness_errors=[])
    violations = []        # (stage, bucket, msg, case, replay_path or None)
    known_seen = {}
    stage_info = {}
    exhaustive_all = True

    # ---- replay tier: committed regression inputs (bypass Hypothesis)
    rdir = os.path.join(VERIF, 'replays', prop_id)
    replayed = 0
    for path in sorted(glob.glob(os.path.join(rdir, '*.json'))):
        try:
            rec, res = replay_file(prop, path)
        except HarnessError as e:
            total['harness_errors'].append('replay %s: %s' % (path, e))
            continue
        replayed += 1
        for bucket, msg in res.discs:
            if bucket in known:
                known_seen[bucket] = known[bucket]['text']
            else:
                violations.append((rec.get('stage'), bucket, msg, rec['case'], path))
    # every known finding must have been exercised by its replay file; if the replay no longer fails
    # the finding is simply not printed (the defect is gone).

    workers = a.workers or (int(os.environ.get('WDV_WORKERS', '0')) or (4 if a.tier == 'quick' else 14))
    import multiprocessing as mp
    ctx = mp.get_context('spawn')
    shrink_left = 90 if a.tier == 'quick' else 600      # seconds of shrinking per run, all buckets together
    timed_out_shards = []
    for stage in prop.stages:
        if a.stage and stage.name not in a.stage:
            continue
        if a.tier not in stage.tiers:
            continue
        n_total = max(1, int(stage.examples(a.tier) * a.scale))
        nshards = workers if stage.kind != 'custom' or getattr(stage, 'shardable', True) else 1
        if stage.kind in ('given', 'machine') and n_total < 4 * nshards:
            nshards = max(1, n_total // 4) or 1
        per = max(1, n_total // nshards)
        jobs = [(prop_id, stage.name, a.tier, seed, i, nshards, per) for i in range(nshards)]
        st0 = time.time()
        if nshards == 1:
            results = [_worker(jobs[0])]
        else:
            with ctx.Pool(nshards) as pool:
                results = pool.map(_worker, jobs)
        discs = {}
        for i, s in enumerate(results):
            merge(total, s)
            if s.get('timed_out'):
                timed_out_shards.append('%s/%d' % (stage.name, i))
            for bucket, e in s['discs'].items():
                cur = discs.get(bucket)
                if cur is None or e['size'] < cur['size']:
                    e = dict(e)
                    e['shard'] = i
                    e['count'] = e['count'] + (cur['count'] if cur else 0)
                    discs[bucket] = e
                else:
                    cur['count'] += e['count']
        stage_info[stage.name] = dict(kind=stage.kind, shards=nshards, cases=sum(s['evaluations'] for s in results),
                                      wall_s=round(time.time() - st0, 2), exhaustive=bool(stage.exhaustive))
        if not stage.exhaustive:
            exhaustive_all = False
        # ---- triage of buckets
        shrunk = 0
        for bucket, e in sorted(discs.items(), key=lambda kv: kv[1]['size']):
            if bucket in known:
                known_seen[bucket] = known[bucket]['text']
                continue
            case, msg = e['case'], e['msg']
            if (stage.kind in ('given', 'machine') and shrunk < (3 if a.tier == 'quick' else MAX_BUCKETS_SHRUNK)
                    and shrink_left > 5 and not os.environ.get('WDV_NO_SHRINK')):
                shrunk += 1
                budget = min(shrink_left, 30 if a.tier == 'quick' else 150)
                shrink_left -= budget
                s = _worker((prop_id, stage.name, a.tier, seed, e['shard'], nshards, per, bucket, budget))
                if s.get('best') is not None and s['best'][2] <= e['size']:
                    case, msg = s['best'][0], s['best'][1]
            violations.append((stage.name, bucket, msg, case, None))

    # ---- report
    rc = 0
    for b, text in sorted(known_seen.items()):
        print('KNOWN-FINDING: property=%s %s [%s]' % (prop_id, text, b))
    seen_paths = set()
    for stage_name, bucket, msg, case, path in violations:
        if path is None:
            path = write_violation(prop_id, stage_name, bucket, msg, case)
        print('discrepancy [%s] %s' % (bucket, msg))
        if path not in seen_paths:
            print('VIOLATION property=%s replay=%s' % (prop_id, os.path.relpath(path, VERIF)))
            seen_paths.add(path)
        rc = 1
    if timed_out_shards:
        print('INCONCLUSIVE property=%s shard time budget exhausted in %s' % (prop_id, ', '.join(timed_out_shards)), file=sys.stderr)
        if rc == 0:
            rc = 2
    if total['harness_errors']:
        for h in total['harness_errors'][:5]:
            print('HARNESS-ERROR property=%s %s' % (prop_id, h), file=sys.stderr)
        if rc == 0:
            rc = 2

    wall = time.time() - t0
    if not a.no_evidence and not a.stage:
        ev = dict(
            property_id=prop_id, tier=a.tier, seed=seed, level='exploration',
            coverage=dict(
                evaluations=total['evaluations'],
                distinct_nontrivial=len(total['nontrivial']),
                rule=prop.rule,
                samples=total['samples'],
                elementary_evaluations=total['sub_evals'],
                case_classes=dict(sorted(total['labels'].items())),
                counters=dict(sorted(total['counters'].items())),
                stages=stage_info,
                replay_files_run=replayed,
                known_findings_seen=sorted(known_seen),
                exhaustive=bool(exhaustive_all and stage_info),
                harness_errors=len(total['harness_errors']),
            ),
            assumptions=list(prop.assumptions),
            wall_s=round(wall, 2),
            violations=len(seen_paths),
        )
        if not ev['coverage']['exhaustive']:
            ev['coverage'].pop('exhaustive')
        os.makedirs(os.path.join(VERIF, 'evidence'), exist_ok=True)
        with open(os.path.join(VERIF, 'evidence', prop_id + '.json'), 'w', encoding='utf-8') as f:
            json.dump(ev, f, indent=1, ensure_ascii=True, default=str)
    print('%s tier=%s seed=%d cases=%d nontrivial=%d violations=%d wall=%.1fs rc=%d' % (
        prop_id, a.tier, seed, total['evaluations'], len(total['nontrivial']), len(seen_paths), wall, rc))
    return rc


if __name__ == '__main__':
    sys.exit(main())
