"""Scripted in-process session: real Output/ConnectionManager/Controller fed by parse.into_sink from a
scripted file object whose readline() (a) runs the commands scheduled before the next line through
Controller.process_command, (b) records the length of the out/err streams at every call, (c) returns
the next line or ''.  The harness therefore owns the schedule and knows which output was produced by
which input item, and when relative to reads."""
import re
from . import env

MSG_LINE = re.compile(r'^\s*(-?\d+\.\d{4}) (\w*): (.*)$')
SEP_LINE = re.compile(r'^    ───┤ (-?\d+\.\d{4})s ├───$')
NEW_LINE = re.compile(r'^New (client|server|unknown type) connection (\w+)$')
CLOSED_LINE = re.compile(r'^Closed (client|server|unknown type) connection (\w+)$')


def make_stream():
    """a String stream of the tool's kind (same base class, same `buffer` attribute for reading) whose appends do not copy
    everything written so far - the tool's own String stream does, which makes sessions of tens of thousands of lines quadratic"""
    from core.output import stream

    class Recorder(stream.Base):
        def __init__(self):
            self._parts = []
            self._joined = ''
            self._njoined = 0
            self.length = 0

        def override_write(self, string):
            t = string + '\n'
            self._parts.append(t)
            self.length += len(t)

        @property
        def buffer(self):
            if self._njoined < len(self._parts):
                self._joined = self._joined + ''.join(self._parts[self._njoined:])
                self._njoined = len(self._parts)
            return self._joined

        def mark(self):
            return len(self._parts)

        def since(self, mark):
            return ''.join(self._parts[mark:])
    return Recorder()


class Segment:
    __slots__ = ('kind', 'text', 'out', 'err', 'index', 'read_at')

    def __init__(self, kind, text, index):
        self.kind = kind
        self.text = text
        self.index = index
        self.out = ''
        self.err = ''
        self.read_at = None

    def out_lines(self):
        return [l for l in self.out.split('\n')][:-1] if self.out else []

    def err_lines(self):
        return [l for l in self.err.split('\n')][:-1] if self.err else []


class ScriptIO:
    def __init__(self, session, items):
        self.s = session
        self.items = list(items)
        self.i = 0
        self.reads = []        # (len(out), len(err)) at every readline() call

    def _close_segment(self):
        s = self.s
        if s.cur is not None:
            s.cur.out = s.out.since(s.pos_out)
            s.cur.err = s.err.since(s.pos_err)
            s.pos_out = s.out.mark()
            s.pos_err = s.err.mark()
            s.cur = None

    def readline(self, size=-1):
        # file semantics: a bounded read returns at most `size` characters and leaves the rest of the line
        if getattr(self, 'pending', ''):
            out, self.pending = (self.pending, '') if size is None or size < 0 else (self.pending[:size], self.pending[size:])
            return out
        line = self._next_line()
        if size is not None and 0 <= size < len(line):
            line, self.pending = line[:size], line[size:]
        return line

    def _next_line(self):
        s = self.s
        self._close_segment()
        self.reads.append((s.out.length, s.err.length))
        while self.i < len(self.items) and self.items[self.i][0] == 'cmd' and not (s.prompt and self.i >= s.prompt_from):
            text = self.items[self.i][1]
            seg = Segment('cmd', text, self.i)
            self.i += 1
            s.segments.append(seg)
            s.cur = seg
            s.run_command(text)
            self._close_segment()
        if self.i >= len(self.items) or (s.prompt and self.i >= s.prompt_from):
            seg = Segment('eof', '', self.i)
            s.segments.append(seg)
            s.cur = seg
            return ''
        kind, text = self.items[self.i][0], self.items[self.i][1]
        seg = Segment(kind, text, self.i)
        seg.read_at = s.out.length
        self.i += 1
        s.segments.append(seg)
        s.cur = seg
        return text + '\n' if kind == 'line' else text


class Session:
    def __init__(self, color=False, show_unprocessed=True, filter_text=None, break_text=None):
        from core import ConnectionManager, matcher
        from core.output import Output, stream
        from frontends.tui import Controller
        env.reset_globals(color=color)      # first: whatever parsing the options does to global state is part of the session
        f = b = None
        if filter_text or break_text:
            # matchers given at start come from the command line: take them from the tool's own option parser, as main.py does
            import io, contextlib
            from frontends.tui.arguments import parse_args
            argv = ['main.py', '--color' if color else '-C', '-p']
            if filter_text: argv += ['-f', filter_text]
            if break_text: argv += ['-b', break_text]
            with contextlib.redirect_stdout(io.StringIO()), contextlib.redirect_stderr(io.StringIO()):
                a = parse_args(argv)
            f, b = a.filter_matcher, a.stop_matcher
        self.matcher = matcher
        self.out = make_stream()
        self.err = make_stream()
        self.output = Output(False, show_unprocessed, self.out, self.err)
        self.cm = ConnectionManager()
        f = f if f is not None else matcher.always
        b = b if b is not None else matcher.never
        self.ctl = Controller(self.output, self.cm, f, b)
        self.segments = []
        self.cur = None
        self.pos_out = 0
        self.pos_err = 0
        self.command_errors = []
        self.on_command = None      # optional hook(session, text) called before a command runs
        self.after_command = None   # optional hook(session, text) called after a command ran
        self.prompt = False
        self.prompt_from = 0

    def run_command(self, text):
        if self.on_command is not None:
            self.on_command(self, text)
        self.ctl.process_command(text)
        if self.after_command is not None:
            self.after_command(self, text)

    def run(self, items, prompt=False):
        """prompt=True: the commands after the last line are typed at the tool's own prompt (TerminalUI) once the input
        has ended, the way file and run mode take commands; the others run between lines (the way GDB mode takes them)"""
        from backends.libwayland_debug_output import parse
        self.prompt = prompt
        self.prompt_from = max([k + 1 for k, it in enumerate(items) if it[0] != 'cmd'], default=0)
        io = ScriptIO(self, items)
        self.io = io
        parse.into_sink(io, self.output, self.cm)
        io._close_segment()
        if prompt:
            from frontends.tui import TerminalUI

            typed = []

            def input_func(text):
                io._close_segment()
                if typed and self.after_command is not None:
                    self.after_command(self, typed[-1])
                if io.i >= len(io.items):
                    seg = Segment('prompt-end', 'quit', io.i)
                    self.segments.append(seg)
                    self.cur = seg
                    return 'quit'
                seg = Segment('cmd', io.items[io.i][1], io.i)
                io.i += 1
                self.segments.append(seg)
                self.cur = seg
                if self.on_command is not None:
                    self.on_command(self, seg.text)
                typed.append(seg.text)
                return seg.text
            TerminalUI(self.ctl, self.ctl, input_func).run_until_stopped()
            io._close_segment()
        # whatever is left (Closed notices) belongs to the eof segment, already closed above
        self.warnings = env.log_capture.take()
        return self.segments

    def type_at_prompt(self, text):
        """one command line typed at the tool's own `wl debug $` prompt (file and run mode take commands that way), then the
        prompt is left alone (end of input)"""
        from frontends.tui import TerminalUI
        lines = [text]

        def input_func(prompt):
            if lines:
                return lines.pop(0)
            raise EOFError()
        TerminalUI(self.ctl, self.ctl, input_func).run_until_stopped()

    # helpers ----------------------------------------------------------------------------------
    def messages(self):
        return list(self.ctl.all_messages)


def render_shown(msgs, color=False):
    """what Message.show prints for each message (used to compare listings with the record)"""
    from core.output import Output, stream
    so = stream.String()
    oo = Output(False, True, so, so)
    for m in msgs:
        m.show(oo)
    return so.buffer.split('\n')[:-1] if so.buffer else []


def run_history(specs, dialect='new', **kw):
    """whole history through the real pipeline (no commands); returns the session"""
    from . import wire
    s = Session(**kw)
    s.run([['line', wire.render(m, dialect)] for m in specs])
    return s
