"""Well-formed history generator (protocol-aware). Every choice is a Hypothesis draw (runner.Draw).

"Well-formed" is the precondition in the quantifier of C02/C03: client-range ids are reused only after
their delete_id, server-range ids (>= 0xff000000) are reused freely, messages are taken from the real
protocol descriptions (independently read by protoxml), object arguments name objects of the declared
interface.  The generator *constructs* such histories; it never filters.
"""
import os
from . import protoxml, env

SERVER_BASE = 0xff000000
_P = None
_W = None
_NEWID_EVENT_IFACES = None
_ENUM_MSGS = None


def protocols():
    """interface name -> one maximal-version description (oracle-side reader)"""
    global _P, _W, _NEWID_EVENT_IFACES, _ENUM_MSGS
    if _P is None:
        d = protoxml.read_all(os.path.join(env.REPO, 'resources', 'protocols'))
        # per interface one maximal-version description, restricted to the messages whose structure all
        # maximal-version descriptions agree on (so the code under test and the generator cannot
        # legitimately disagree about argument lists; C07 handles ties and enum tags)
        _W = protoxml.winners(d)
        _P = {}
        for n, (pi, msgs) in protoxml.structural(d).items():
            pi.msgs = msgs
            _P[n] = pi
        _NEWID_EVENT_IFACES = sorted(
            n for n, pi in _P.items()
            if any(m.is_event and any(a.type == 'new_id' and a.interface for a in m.args) and
                   all(a.type != 'object' or a.allow_null for a in m.args) for m in pi.msgs))
        _ENUM_MSGS = {}
        for n, pi in _P.items():
            ms = [m for m in pi.msgs if any((a.enum and a.type in ('int', 'uint')) or a.type == 'array' for a in m.args)
                  and all(a.type != 'object' or a.allow_null for a in m.args)
                  and not (n == 'wl_registry' and m.name == 'bind')]
            if ms:
                _ENUM_MSGS[n] = ms
    return _P


_TWINS = None


def twins():
    """groups of messages of different interfaces that share name and signature but give an object / new-id argument a
    different interface (xdg_wm_base.get_xdg_surface / zxdg_shell_v6.get_xdg_surface, wl_data_device.data_offer / ...)"""
    global _TWINS
    if _TWINS is None:
        P = protocols()
        code = {'int': 'i', 'uint': 'u', 'fixed': 'f', 'string': 's', 'object': 'o', 'new_id': 'n', 'array': 'a', 'fd': 'h'}
        groups = {}
        for n, pi in sorted(P.items()):
            for m in pi.msgs:
                if any(a.type in ('object', 'new_id') for a in m.args) and all(a.type != 'new_id' or a.interface for a in m.args):
                    groups.setdefault((m.name, ''.join(code[a.type] for a in m.args)), []).append(
                        (n, m, tuple(a.interface for a in m.args if a.type in ('object', 'new_id'))))
        _TWINS = [v for k, v in sorted(groups.items()) if len({x[2] for x in v}) > 1]
    return _TWINS


def winners_map():
    protocols()
    return _W


CORE = ['wl_registry', 'wl_callback', 'wl_compositor', 'wl_shm', 'wl_shm_pool', 'wl_buffer', 'wl_surface', 'wl_seat',
        'wl_pointer', 'wl_keyboard', 'wl_touch', 'wl_output', 'wl_region', 'wl_subcompositor', 'xdg_wm_base', 'xdg_surface', 'xdg_toplevel',
        'xdg_popup', 'xdg_positioner', 'wl_data_device_manager', 'wl_data_device', 'wl_data_source', 'zwlr_layer_shell_v1',
        'zwlr_layer_surface_v1', 'zxdg_decoration_manager_v1', 'wp_viewporter', 'zwp_linux_dmabuf_v1']
UNKNOWN_IFACES = ['my_unknown_iface', 'zz_custom_v9', 'new', 'x', 'ACME_panel', 'Foo']      # (wayland-scanner accepts any C identifier)
STRS = ['', 'a', 'wl_seat', 'wl_shm', 'hello world', 'a, b', 'x) y', '(p', '[q]', 'wl_surface@3', 'nil', '12', 'new id wl_a@4', 'ünï', "it's", 'fd 3',
        'array', ' lead', 'trail ', 'org.gnome.gedit', 'foo.bar.Baz', 'title: x', '}', '{', '1.5', '[1.0] a@1.b(',
        '[5.000]  -> wl_surface@9.commit()', '[   7.250]  -> wl_x#3.y(1)', '2 discarded drafts', 'x discarded y', '50% done', '%s of %d', '100%', '{0} {name}',
        'Q3  report', 'Q3 report', 'a   b', 'My  App']      # runs of blanks (a command line must reach the matcher blank for blank)      # a whole sent-looking message with its own time inside a string
LONG_TITLES = ['Quarterly report (final, really final) - spreadsheet.ods - Some Office Suite 7.4', 'x' * 64, 'https://example.org/a/very/long/path/to/a/page?with=query&and=more#fragment - Browser',
               'org.example.AnApplicationWithAVeryLongReverseDomainIdentifier.Window']
FREE_NAMES = ['ping', 'set_thing', 'done', 'new', 'destroyed', 'configure', 'commit', 'Frob', 'setX']
I32 = [0, 1, -1, 7, 2, 3, 4, 8, 16, 272, 273, 274, -2147483648, 2147483647]
U32 = [0, 1, 2, 3, 4, 5, 7, 8, 15, 16, 255, 4294967295]
FIX = [0, 256, -256, 128, -128, 1, -1, 2147483647, -2147483648, 384, 25600]
T_MAX = 2**32 - 1
GAPS = [0, 1, 13, 250, 999, 1000, 999_999, 1_000_000, 1_000_001, 2_500_000, 60_000_000]


class ConnGen:
    def __init__(self, tag, side, profile=None):
        self.tag = tag
        self.side = side                   # whose log this is: 'client' or 'server'
        self.live = {1: 'wl_display'}      # id -> iface (latest incarnation alive)
        self.dead = {}                     # id -> iface (latest incarnation dead)
        self.gens = {1: 1}                 # id -> number of incarnations so far
        self.next_client = 2
        self.next_server = SERVER_BASE
        self.started = False
        self.profile = profile or {}
        self.nmsg = 0
        self.focus = None                  # object the next protocol message should prefer (just re-created id)

    # ---- helpers
    def sent(self, is_event):
        return (self.side == 'client') != is_event

    def _born(self, oid, iface):
        if not hasattr(self, 'past'):
            self.past = {}
        self.past.setdefault(oid, []).append(iface)
        self.live[oid] = iface
        self.dead.pop(oid, None)
        self.gens[oid] = self.gens.get(oid, 0) + 1

    def alloc_client(self, d):
        free = sorted(i for i in self.dead if i < SERVER_BASE and i not in self.live)
        if free and d.chance(self.profile.get('reuse', 0.6)):
            return free[0] if d.chance(0.5) else d.choice(free)
        i = self.next_client
        self.next_client += 1
        return i

    def alloc_server(self, d):
        if getattr(self, '_force_server_id', None) is not None:
            i, self._force_server_id = self._force_server_id, None
            return i
        used = sorted(i for i in list(self.live) + list(self.dead) if i >= SERVER_BASE)
        if used and d.chance(self.profile.get('server_reuse', 0.5)):
            return d.choice(used)      # may be alive: implicit destruction
        i = self.next_server
        self.next_server += 1
        return i

    def pick_obj(self, d, iface, allow_dead=False):
        pool = sorted(i for i, t in self.live.items() if iface is None or t == iface)
        if allow_dead:
            pool += sorted(i for i, t in self.dead.items() if (iface is None or t == iface) and i not in self.live)
        return d.choice(pool) if pool else None

    def iface_of(self, oid):
        return self.live.get(oid) or self.dead.get(oid)

    def arg(self, d, pa, is_event, pending, iface=None):
        t = pa.type
        if t in ('int', 'uint') and pa.enum and iface is not None and d.chance(0.85):
            # enum-typed argument: entry values, unions of two entries, occasionally a value outside
            ecs = protoxml.enum_candidates(protocols()[iface], pa.enum, _W) if iface in protocols() else []
            vals = [v for e in ecs[:1] for _, v in e.entries]
            if vals:
                v = d.choice(vals)
                if ecs[0].bitfield and d.chance(0.5):
                    v |= d.choice(vals)
                    if d.chance(0.3):
                        v |= d.choice(vals)
                if d.chance(0.1):
                    v = max(vals) + 1
                elif ecs[0].bitfield and max(vals) < 2**30 and d.chance(0.15):
                    v |= 1 << max(vals).bit_length()        # named bits plus one the descriptions do not know (a newer peer)
                return [t, v & 0xffffffff if t == 'uint' else v]
        if t == 'int':
            return ['int', d.choice(I32) if d.chance(0.7) else d.int(-2**31, 2**31 - 1)]
        if t == 'uint':
            return ['uint', d.choice(U32) if d.chance(0.7) else d.int(0, 2**32 - 1)]
        if t == 'fixed':
            return ['fixed', d.choice(FIX) if d.chance(0.6) else d.int(-2**31, 2**31 - 1)]
        if t == 'string':
            if pa.allow_null and d.chance(0.3):
                return ['str', None]
            if self.profile.get('long_strings') and d.chance(0.04):
                return ['str', d.choice(['L', 'ab ', 'x, ']) * d.choice([1400, 2100, 4200])]     # lines of 4-13 kB
            return ['str', d.choice(STRS)]
        if t == 'array':
            return ['array', d.choice([0, 4, 8, 12, 20, 64])]
        if t == 'fd':
            return ['fd', d.int(0, 64)]
        if t == 'object':
            oid = self.pick_obj(d, pa.interface, allow_dead=d.chance(0.15))
            if oid is not None and any(oid == p[0] for p in pending):
                oid = None          # the id is being handed out again by this very message: a mention would be ambiguous
            if oid is None:
                return ['obj', pa.interface, None] if pa.allow_null else None
            if pa.allow_null and d.chance(0.25):
                return ['obj', pa.interface, None]
            return ['obj', self.iface_of(oid), oid]
        if t == 'new_id':
            if pa.interface is None:
                return None
            oid = self.alloc_server(d) if is_event else self.alloc_client(d)
            if any(oid == p[0] for p in pending) or any(a[0] == 'obj' and a[2] == oid for a in getattr(self, '_args_so_far', [])) or oid == getattr(self, '_target', None):
                return None
            pending.append((oid, pa.interface))
            return ['new', pa.interface, oid]
        raise ValueError(t)

    def _protocol_message(self, d, oid, iface, pm):
        pending, args = [], []
        self._target = oid
        save = (dict(self.live), dict(self.dead), self.next_client, self.next_server, dict(self.gens))
        for pa in pm.args:
            self._args_so_far = args
            a = self.arg(d, pa, pm.is_event, pending, iface)
            if a is None:
                self.live, self.dead, self.next_client, self.next_server, self.gens = save
                return None
            args.append(a)
        for i, t in pending:
            self._born(i, t)
        return dict(sent=self.sent(pm.is_event), iface=iface, id=oid, name=pm.name, args=args)

    # ---- step kinds (each returns a message spec without conn/t_us, or None when not applicable)
    def step_first(self, d):
        self.started = True
        self._born(2, 'wl_registry')
        self.next_client = max(self.next_client, 3)
        return dict(sent=self.sent(False), iface='wl_display', id=1, name='get_registry', args=[['new', 'wl_registry', 2]])

    def step_delete(self, d, oid=None):
        pool = sorted(i for i in self.live if 1 < i < SERVER_BASE)
        if not pool:
            return None
        i = oid if oid in pool else d.choice(pool)
        self.dead[i] = self.live.pop(i)
        return dict(sent=self.sent(True), iface='wl_display', id=1, name='delete_id', args=[['uint', i]])

    def step_bind(self, d, iface=None):
        reg = self.pick_obj(d, 'wl_registry')
        if reg is None:
            return None
        if iface is None:
            iface = d.choice(CORE) if d.chance(0.8) else d.choice(UNKNOWN_IFACES)
        oid = self.alloc_client(d)
        self._born(oid, iface)
        return dict(sent=self.sent(False), iface='wl_registry', id=reg, name='bind',
                    args=[['uint', d.int(1, 60)], ['str', iface], ['uint', d.int(1, 9)], ['new', None, oid]])

    def step_freeform(self, d, oid):
        iface = self.iface_of(oid)
        sent = d.chance(0.5)
        is_event = sent != (self.side == 'client')
        args = []
        for _ in range(d.int(0, 4)):
            k = d.int(0, 8)
            if k == 0: args.append(['int', d.int(-5, 5)])
            elif k == 1: args.append(['str', d.choice(STRS)])
            elif k == 2: args.append(['fixed', d.int(-1000, 1000)])
            elif k == 3: args.append(['fd', d.int(0, 9)])
            elif k == 4: args.append(['array', 4])
            elif k == 5: args.append(['str', None])
            elif k == 6: args.append(['uint', d.choice(U32)])
            elif k == 7:
                o = self.pick_obj(d, None, allow_dead=d.chance(0.2))
                if any(a[0] == 'new' and a[2] == o for a in args):
                    continue
                args.append(['obj', self.iface_of(o), o] if d.chance(0.8) else ['obj', 'wl_x', None])
            else:
                i = self.alloc_server(d) if is_event else self.alloc_client(d)
                if any(a[0] in ('new', 'obj') and a[2] == i for a in args) or i == oid:
                    continue
                t = d.choice(['my_child', 'wl_buffer', 'wl_callback'])
                args.append(['new', t, i])
        for a in args:
            if a[0] == 'new':
                self._born(a[2], a[1])
        return dict(sent=sent, iface=iface, id=oid, name=d.choice(FREE_NAMES), args=args)

    def step_message(self, d):
        P = protocols()
        for _ in range(8):
            oid = self.pick_obj(d, None, allow_dead=d.chance(0.1))
            if self.focus is not None and self.focus in self.live and d.chance(0.75):
                oid = self.focus
            self.focus = None
            iface = self.iface_of(oid)
            if iface not in P:
                return self.step_freeform(d, oid)
            msgs = [m for m in P[iface].msgs
                    if not (iface == 'wl_registry' and m.name == 'bind') and not (iface == 'wl_display' and m.name == 'delete_id')]
            if not msgs:
                continue
            m = self._protocol_message(d, oid, iface, d.choice(msgs))
            if m is not None:
                return m
        return self.step_sync(d)

    def step_sync(self, d):
        i = self.alloc_client(d)
        self._born(i, 'wl_callback')
        return dict(sent=self.sent(False), iface='wl_display', id=1, name='sync', args=[['new', 'wl_callback', i]])

    def step_server_event(self, d):
        """an event that creates a server-range object (dedicated class: starved when left to chance)"""
        P = protocols()
        cands = []
        for oid, iface in sorted(self.live.items()):
            pi = P.get(iface)
            if pi is None:
                continue
            for m in pi.msgs:
                if m.is_event and any(a.type == 'new_id' and a.interface for a in m.args):
                    cands.append((oid, iface, m))
        if not cands:
            return self.step_bind(d, iface=d.choice(_NEWID_EVENT_IFACES)) if _NEWID_EVENT_IFACES else None
        oid, iface, pm = d.choice(cands)
        return self._protocol_message(d, oid, iface, pm)

    def step_server_retype(self, d):
        """the server hands out an id of its range again, this time for an object of a *different* interface (the previous holder
        may be alive: implicit destruction), and the next message targets the new object"""
        P = protocols()
        used = sorted(i for i in list(self.live) + list(self.dead) if i >= SERVER_BASE)
        cands = []
        for oid, iface in sorted(self.live.items()):
            pi = P.get(iface)
            if pi is None:
                continue
            for m in pi.msgs:
                if m.is_event and sum(1 for a in m.args if a.type == 'new_id' and a.interface) == 1:
                    cands.append((oid, iface, m))
        self._retype_chain = True          # the following steps should continue towards the hand-out (see next())
        if not cands:
            return self.step_bind(d, iface=d.choice(_NEWID_EVENT_IFACES)) if _NEWID_EVENT_IFACES else None
        if not used:
            return self.step_server_event(d)
        pairs = []
        for oid, iface, pm in cands:
            newt = next(a.interface for a in pm.args if a.type == 'new_id' and a.interface)
            other = [i for i in used if self.iface_of(i) != newt and i != oid]
            if other:
                pairs.append((oid, iface, pm, newt, other))
        if not pairs:
            # every event at hand creates the interface the used ids already have: bring in an object whose events create another
            have = {self.iface_of(i) for i in used}
            more = [n for n in _NEWID_EVENT_IFACES if n not in self.live.values() and any(
                m.is_event and any(a.type == 'new_id' and a.interface and a.interface not in have for a in m.args) for m in P[n].msgs)]
            return self.step_bind(d, iface=d.choice(more)) if more else self.step_server_event(d)
        oid, iface, pm, newt, other = d.choice(pairs)
        sid = other[0] if d.chance(0.5) else d.choice(other)
        self._force_server_id = sid
        m = self._protocol_message(d, oid, iface, pm)
        self._force_server_id = None
        if m is not None and self.live.get(sid) == newt:
            self.focus = sid
            self._retype_chain = False
        return m

    def step_twins(self, d):
        """two interfaces with a same-named, same-signature message whose object / new-id argument differs in interface: both are
        bound and both messages sent on this connection (one step per call, continued by next())"""
        P = protocols()
        plan = getattr(self, '_twin_plan', None)
        if not plan:
            g = d.choice(twins())
            picks = d.perm(g)[:2] if len({x[2] for x in g[:2]}) > 1 or len(g) == 2 else sorted(d.perm(g), key=lambda x: x[2])[:1] + [x for x in g if x[2] != sorted(d.perm(g), key=lambda x: x[2])[0][2]][:1]
            if len({x[2] for x in picks}) < 2:
                picks = [g[0]] + [x for x in g if x[2] != g[0][2]][:1]
            plan = self._twin_plan = [(n, m.name) for n, m, _ in picks]
        iface, name = plan[0]
        oid = self.pick_obj(d, iface)
        if oid is None:
            return self.step_bind(d, iface=iface)
        pm = P[iface].msg(name)
        m = self._protocol_message(d, oid, iface, pm)
        if m is None:
            need = [a.interface for a in pm.args if a.type == 'object' and not a.allow_null and a.interface and self.pick_obj(d, a.interface) is None]
            if need and need[0] in P:
                return self.step_bind(d, iface=need[0])
            plan.pop(0)
            return None
        plan.pop(0)
        return m

    def step_enum_message(self, d):
        """a message with an enum-typed argument (labels, bitfield unions): dedicated class"""
        protocols()
        cands = [(oid, iface) for oid, iface in sorted(self.live.items()) if iface in _ENUM_MSGS]
        if not cands or d.chance(0.15):
            return self.step_bind(d, iface=d.choice(sorted(_ENUM_MSGS)) if d.chance(0.4) else d.choice(
                [i for i in ('wl_seat', 'wl_output', 'wl_shm', 'zwlr_layer_surface_v1', 'wl_data_offer', 'wl_data_source', 'wl_pointer',
                             'wl_keyboard', 'wl_surface', 'xdg_positioner', 'wl_shell_surface', 'zwp_text_input_v1') if i in _ENUM_MSGS]))
        oid, iface = d.choice(cands)
        return self._protocol_message(d, oid, iface, d.choice(_ENUM_MSGS[iface]))

    def step_title(self, d):
        """messages the tool inspects for connection titles (set_app_id / set_title / get_layer_surface), with every string"""
        P = protocols()
        tl = self.pick_obj(d, 'xdg_toplevel')
        ls = self.pick_obj(d, 'zwlr_layer_shell_v1')
        sf = self.pick_obj(d, 'wl_surface')
        if ls is not None and sf is not None and d.chance(0.3) and 'zwlr_layer_shell_v1' in P:
            pm = P['zwlr_layer_shell_v1'].msg('get_layer_surface')
            if pm is not None:
                m = self._protocol_message(d, ls, 'zwlr_layer_shell_v1', pm)
                if m is not None:
                    return m
        if tl is None:
            self._title_next = True      # a title-bearing message should follow the bind soon
            return self.step_bind(d, iface=d.choice(['xdg_toplevel', 'xdg_toplevel', 'xdg_toplevel', 'zwlr_layer_shell_v1', 'wl_surface']))
        self._title_next = False
        name = d.choice(['set_title', 'set_app_id'])
        return dict(sent=self.sent(False), iface='xdg_toplevel', id=tl, name=name, args=[['str', '' if d.chance(0.25) else (d.choice(['b', 'B', 'c', 'C', 'a']) if d.chance(0.3) else d.choice(STRS + LONG_TITLES))]])   # app ids that read like connection names

    def step_retype(self, d):
        """re-create a freed client id with a *different* interface and make the next message target it"""
        reg = self.pick_obj(d, 'wl_registry')
        pool = sorted(i for i in self.dead if i < SERVER_BASE and i not in self.live)
        if reg is None:
            return None
        if not pool:
            return self.step_delete(d)
        oid = d.choice(pool)
        iface = d.choice([c for c in CORE if c != self.dead.get(oid)])
        self._born(oid, iface)
        self.focus = oid
        return dict(sent=self.sent(False), iface='wl_registry', id=reg, name='bind',
                    args=[['uint', d.int(1, 60)], ['str', iface], ['uint', d.int(1, 9)], ['new', None, oid]])

    def step_kinds(self, d):
        """a free-form message (unknown interface) whose arguments of different kinds carry colliding small values:
        Int 7, Fd 7, fixed 7.0, string "7", object id 7"""
        pool = sorted(i for i, t in self.live.items() if t in UNKNOWN_IFACES)
        if not pool:
            return self.step_bind(d, iface=d.choice(UNKNOWN_IFACES))
        oid = d.choice(pool)
        args = []
        for _ in range(d.int(1, 5)):
            v = d.choice([0, 1, 2, 3, 5, 7])
            k = d.int(0, 6)
            if k == 0: args.append(['int', v])
            elif k == 1: args.append(['uint', v])
            elif k == 2:
                if d.chance(0.4):
                    # large coordinates one fixed-point step (1/256) apart: distinct values however close they look
                    big = d.choice([1073741952, 1073741953, 2147483646, 268435456, -2147483647, 1000 * 256 + 1])
                    args.append(['fixed', big])
                    if d.chance(0.6):
                        args.append(['fixed', big + d.choice([1, -1])])
                else:
                    args.append(['fixed', 0 if d.chance(0.3) else (v * 256 if d.chance(0.7) else v * 256 + 128)])
            elif k == 3: args.append(['fd', v])
            elif k == 4: args.append(['str', str(v) if d.chance(0.7) else d.choice(['nil', '7.0', 'wl_x'])])
            elif k == 5:
                o = self.pick_obj(d, None)
                args.append(['obj', self.iface_of(o), o])
            else: args.append(['str', None] if d.chance(0.5) else ['obj', 'wl_x', None])
        sent = d.chance(0.5)
        return dict(sent=sent, iface=self.iface_of(oid), id=oid, name=d.choice(FREE_NAMES), args=args)

    def step_newer(self, d):
        """a message the shipped descriptions do not know although they know the interface (the program speaks a newer
        protocol version): an unknown message name, or a known message with extra trailing arguments"""
        P = protocols()
        pool = sorted(i for i, t in self.live.items() if t in P and t not in ('wl_display', 'wl_registry'))
        if not pool:
            return None
        oid = d.choice(pool)
        iface = self.live[oid]
        extra = []
        for _ in range(d.int(0, 3)):
            k = d.int(0, 4)
            if k == 0: extra.append(['int', d.int(-5, 5)])
            elif k == 1: extra.append(['uint', d.choice(U32)])
            elif k == 2: extra.append(['str', d.choice(STRS)])
            elif k == 3: extra.append(['fixed', d.int(-1000, 1000)])
            else: extra.append(['obj', 'wl_x', None])
        msgs = [m for m in P[iface].msgs if all(a.type not in ('object', 'new_id') for a in m.args)]
        if msgs and d.chance(0.5):
            pm = d.choice(msgs)
            m = self._protocol_message(d, oid, iface, pm)
            if m is not None:
                m['args'] += extra or [['uint', 1]]
                return m
        return dict(sent=self.sent(d.chance(0.5)), iface=iface, id=oid, name=d.choice(['future_request', 'set_v99_thing', 'new', 'frob']), args=extra)

    def step_dead_creates(self, d):
        """a message on an object whose delete_id has already gone by (libwayland logs the display queue first: queued events show
        up after the delete_id of their object) that creates an object"""
        P = protocols()
        pool = sorted(i for i in self.dead if i > 2 and i not in self.live)
        if not pool:
            return None
        oid = d.choice(pool)
        iface = self.dead[oid]
        is_event = d.chance(0.7)
        i = self.alloc_server(d) if is_event else self.alloc_client(d)
        if i == oid:
            return None
        t = d.choice(['my_child', 'wl_buffer', 'wl_callback'])
        self._born(i, t)
        name = d.choice(['future_request', 'set_v99_thing', 'frob']) if iface in P else d.choice(FREE_NAMES)
        return dict(sent=self.sent(is_event), iface=iface, id=oid, name=name, args=[['new', t, i]] + ([['uint', d.int(0, 9)]] if d.chance(0.4) else []))

    def step_long_line(self, d):
        """a message whose printed line is longer than 4096 characters (a long title, namespace or text; the wire limit is on the
        message, not on its print-out), half of the time one that also creates an object - preferably on an id used before"""
        P = protocols()
        pool = sorted(i for i in self.live if i > 2)
        if not pool:
            return None
        oid = d.choice(pool)
        iface = self.live[oid]
        text = d.choice(['L' * 4200, 'ab ' * 1400, 'x, ' * 2100, 'title (draft) ' * 400])
        is_event = d.chance(0.3)
        args = [['str', text]]
        if d.chance(0.5):
            i = self.alloc_server(d) if is_event else self.alloc_client(d)
            if i != oid:
                t = d.choice(['my_child', 'wl_buffer', 'wl_callback'])
                args.insert(0, ['new', t, i])
                self._born(i, t)
        if d.chance(0.5):
            args.append(['uint', d.int(0, 9)])
        name = d.choice(['future_request', 'set_v99_thing', 'frob']) if iface in P else d.choice(FREE_NAMES)
        return dict(sent=self.sent(is_event), iface=iface, id=oid, name=name, args=args)

    def step_foreign(self, d):
        """a line naming an id in use (or used before) under ANOTHER interface than its holder's - what the lines of a second,
        untagged connection in the same process look like. It creates nothing and is not a mention of the holder; the message
        it denotes is still the one on the line"""
        pool = sorted(i for i in list(self.live) + list(self.dead) if i > 2)
        if not pool:
            return None
        oid = d.choice(pool)
        holder = self.iface_of(oid)
        others = [t for t in ['wl_surface', 'wl_buffer', 'wl_callback', 'wl_region', 'xdg_toplevel', 'my_child', 'ACME_panel'] if t != holder]
        earlier = sorted({t for t in getattr(self, 'past', {}).get(oid, []) if t and t != holder})
        if earlier and d.chance(0.7):
            others = earlier          # the interface an earlier holder of the id had (and was addressed by)
        else:
            # ... or an id that changed hands at some point, under one of its former interfaces
            cands = sorted(i for i in pool if {t for t in getattr(self, 'past', {}).get(i, []) if t} - {self.iface_of(i)})
            if cands and d.chance(0.7):
                oid = d.choice(cands)
                holder = self.iface_of(oid)
                others = sorted({t for t in self.past[oid] if t and t != holder})
        args = []
        for _ in range(d.int(0, 3)):
            k = d.int(0, 3)
            if k == 0: args.append(['int', d.int(-5, 5)])
            elif k == 1: args.append(['uint', d.choice(U32)])
            elif k == 2: args.append(['str', d.choice(STRS)])
            else: args.append(['fixed', d.int(-1000, 1000)])
        return dict(sent=d.chance(0.5), iface=d.choice(others), id=oid, name=d.choice(['frob', 'damage', 'commit', 'done', 'future_request']), args=args, foreign=True)

    def step_midsession(self, d):
        """the log started mid-session: a message on an object whose creation the tool never saw (its id is not in the table),
        possibly creating objects (which must exist from then on) or mentioning another such object"""
        P = protocols()
        if not getattr(self, 'ghosts', None):
            self.ghosts = {}
            for _ in range(d.int(1, 3)):
                self.ghosts[self.next_client] = d.choice(['wl_compositor', 'wl_shm', 'wl_surface', 'wl_seat', 'wl_shm_pool', 'xdg_wm_base', 'wl_data_device_manager',
                                                           'wl_subcompositor', 'wl_buffer', 'wl_region', 'zz_custom_v9', 'wl_registry', 'wl_registry'])
                if self.profile.get('no_unseen_registry') and self.ghosts[self.next_client] == 'wl_registry':
                    # (GDB mode cannot know that the untyped target of a sent closure is a registry: a bind through it is not judged)
                    self.ghosts[self.next_client] = 'wl_compositor'
                self.next_client += 1
        gid = d.choice(sorted(self.ghosts))
        iface = self.ghosts[gid]
        if gid < SERVER_BASE and d.chance(0.2):
            # the unseen object is destroyed: its delete_id names an id the tool never saw created; the id is free again
            # (and may be handed out anew later)
            del self.ghosts[gid]
            self.dead[gid] = iface
            self.gens.setdefault(gid, 0)
            return dict(sent=self.sent(True), iface='wl_display', id=1, name='delete_id', args=[['uint', gid]])
        if iface == 'wl_registry':
            # a registry obtained before the log started: what is bound through it comes into being like any other object
            t = d.choice(CORE)
            oid = self.alloc_client(d)
            self._born(oid, t)
            return dict(sent=self.sent(False), iface='wl_registry', id=gid, name='bind', args=[['uint', d.int(1, 60)], ['str', t], ['uint', d.int(1, 9)], ['new', None, oid]])
        if iface not in P:
            args = [['int', d.int(-5, 5)]] if d.chance(0.5) else []
            if d.chance(0.6):
                i = self.alloc_client(d)
                self._born(i, 'my_child')
                args.append(['new', 'my_child', i])
            return dict(sent=d.chance(0.5), iface=iface, id=gid, name=d.choice(FREE_NAMES), args=args)
        if d.chance(0.25):
            # a ghost as an object argument of a message on a tracked object
            for oid, t in sorted(self.live.items()):
                pi = P.get(t)
                for pm in (pi.msgs if pi else []):
                    idx = [k for k, a in enumerate(pm.args) if a.type == 'object' and a.interface == iface]
                    if idx and all(a.type != 'new_id' and (a.type != 'object' or a.allow_null or k in idx) for k, a in enumerate(pm.args)):
                        m = self._protocol_message_with(d, oid, t, pm, {idx[0]: ['obj', iface, gid]})
                        if m is not None:
                            return m
        msgs = [m for m in P[iface].msgs if all(a.type != 'object' or a.allow_null or self.pick_obj(d, a.interface) is not None for a in m.args)]
        creating = [m for m in msgs if any(a.type == 'new_id' and a.interface for a in m.args)]
        if creating and d.chance(0.7):
            msgs = creating
        if not msgs:
            return None
        return self._protocol_message(d, gid, iface, d.choice(msgs))

    def _protocol_message_with(self, d, oid, iface, pm, fixed):
        pending, args = [], []
        self._target = oid
        save = (dict(self.live), dict(self.dead), self.next_client, self.next_server, dict(self.gens))
        for k, pa in enumerate(pm.args):
            self._args_so_far = args
            a = fixed[k] if k in fixed else self.arg(d, pa, pm.is_event, pending, iface)
            if a is None:
                self.live, self.dead, self.next_client, self.next_server, self.gens = save
                return None
            args.append(a)
        for i, t in pending:
            self._born(i, t)
        return dict(sent=self.sent(pm.is_event), iface=iface, id=oid, name=pm.name, args=args)

    def step_repeat(self, d):
        """the very same message once more (two commits in a row, a burst of identical motion events): legal, and with a zero gap
        the two lines are identical character for character"""
        m = getattr(self, 'last', None)
        if m is None or any(a[0] == 'new' for a in m['args']) or (m['iface'] == 'wl_display' and m['name'] == 'delete_id'):
            return None
        if m['id'] not in self.live or any(a[0] == 'obj' and a[2] is not None and a[2] not in self.live for a in m['args']):
            return None
        return dict(sent=m['sent'], iface=m['iface'], id=m['id'], name=m['name'], args=[list(a) for a in m['args']])

    def step_nulls(self, d):
        """a message whose nullable object arguments are all nil (nil arguments carry only their *declared* interface)"""
        P = protocols()
        cands = []
        for oid, iface in sorted(self.live.items()):
            pi = P.get(iface)
            if pi is None:
                continue
            for m in pi.msgs:
                if any(a.type == 'object' and a.allow_null for a in m.args) and all(a.type != 'new_id' and (a.type != 'object' or a.allow_null) for a in m.args):
                    cands.append((oid, iface, m))
        if not cands:
            return self.step_bind(d, iface=d.choice(['wl_surface', 'wl_pointer', 'xdg_toplevel', 'wl_data_offer', 'wl_data_device', 'wl_subsurface']))
        oid, iface, pm = d.choice(cands)
        m = self._protocol_message(d, oid, iface, pm)
        if m is None:
            return None
        for a, pa in zip(m['args'], pm.args):
            if pa.type == 'object':
                a[1], a[2] = pa.interface, None
        return m

    def step_null_strings(self, d):
        """a message whose nullable string arguments are nil (`nil` where a string could be: each carries the name of its own position)"""
        P = protocols()
        cands = []
        for oid, iface in sorted(self.live.items()):
            pi = P.get(iface)
            if pi is None:
                continue
            for m in pi.msgs:
                if any(a.type == 'string' and a.allow_null for a in m.args) and all(a.type != 'new_id' and (a.type != 'object' or a.allow_null) for a in m.args):
                    cands.append((oid, iface, m))
        if len({(c[1], c[2].name) for c in cands}) < 2:
            have = {c[1] for c in cands}
            want = [t for t in ['wl_data_source', 'wl_data_offer', 'zwp_text_input_v3', 'zwp_text_input_v1', 'wl_shell_surface'] if t in P and t not in have]
            if want:
                self._nullstr_next = 4      # messages with nil strings should follow soon
                return self.step_bind(d, iface=d.choice(want))
        if not cands:
            return None
        last = getattr(self, '_nullstr_last', None)
        other = [c for c in cands if (c[1], c[2].name) != last]
        oid, iface, pm = d.choice(other or cands)      # preferably another message than last time (another argument name)
        m = self._protocol_message(d, oid, iface, pm)
        if m is None:
            return None
        self._nullstr_last = (iface, pm.name)
        for a, pa in zip(m['args'], pm.args):
            if pa.type == 'string' and pa.allow_null:
                a[1] = None
            if pa.type == 'object' and pa.allow_null and d.chance(0.5):
                a[1], a[2] = pa.interface, None
        return m

    def step_appid(self, d):
        """an app id that reads like a connection name (`connection b` must still mean the connection *named* B)"""
        tl = self.pick_obj(d, 'xdg_toplevel')
        if tl is None:
            return self.step_bind(d, iface='xdg_toplevel')
        return dict(sent=self.sent(False), iface='xdg_toplevel', id=tl, name='set_app_id', args=[['str', d.choice(['a', 'b', 'B', 'c', 'C', 'd'])]])

    def step_arrays(self, d):
        """a message with a non-empty array argument (GDB mode decodes the elements; some are enum-typed)"""
        P = protocols()
        cands = []
        for oid, iface in sorted(self.live.items()):
            pi = P.get(iface)
            if pi is None:
                continue
            for m in pi.msgs:
                if any(a.type == 'array' for a in m.args) and all(a.type not in ('object', 'new_id') or (a.type == 'object' and a.allow_null) for a in m.args):
                    cands.append((oid, iface, m))
        if not cands:
            return self.step_bind(d, iface=d.choice(['xdg_toplevel', 'xdg_toplevel', 'zwlr_foreign_toplevel_handle_v1', 'zxdg_toplevel_v6', 'wl_keyboard']))
        oid, iface, pm = d.choice(cands)
        m = self._protocol_message(d, oid, iface, pm)
        if m is not None:
            for a in m['args']:
                if a[0] == 'array':
                    a[1] = d.choice([0, 0, 4, 8, 12, 16, 24])
        return m

    def step_deep_reuse(self, d):
        """delete and re-create the same client id (towards incarnation letters beyond z)"""
        pool = sorted(i for i in self.dead if i < SERVER_BASE and i not in self.live)
        if pool:
            i = min(pool, key=lambda x: -self.gens.get(x, 0))
            self._born(i, 'wl_callback')
            return dict(sent=self.sent(False), iface='wl_display', id=1, name='sync', args=[['new', 'wl_callback', i]])
        pool = sorted((i for i in self.live if 1 < i < SERVER_BASE), key=lambda x: -self.gens.get(x, 0))
        if pool:
            return self.step_delete(d, pool[0])
        return self.step_sync(d)

    def next(self, d, kind=None):
        if not self.started:
            self.started = True
            if self.profile.get('id_bases'):
                # the session is joined late (gdb attached to a running program, a log cut at the front): ids are wherever they are
                self.next_client = d.choice(self.profile['id_bases'])
            if kind is None and d.chance(0.8):
                m = self.step_first(d)
                self.nmsg += 1
                return m
        w = self.profile.get('weights') or dict(delete=14, bind=12, message=40, server_event=10, deep=0, sync=4, enum=8, title=6, retype=6, newer=4, nulls=4, repeat=4)
        if kind is None:
            kind = d.weighted([(v, k) for k, v in sorted(w.items()) if v > 0])
            if getattr(self, '_title_next', False) and w.get('title') and d.chance(0.7):
                kind = 'title'
            if getattr(self, '_retype_chain', False) and w.get('server_retype') and d.chance(0.6):
                kind = 'server_retype'
            if getattr(self, '_twin_plan', None) and w.get('twins') and d.chance(0.6):
                kind = 'twins'
            if getattr(self, '_nullstr_next', 0) and w.get('null_strings') and d.chance(0.7):
                kind = 'null_strings'
                self._nullstr_next -= 1
        m = None
        if kind == 'delete': m = self.step_delete(d)
        elif kind == 'bind': m = self.step_bind(d)
        elif kind == 'server_event': m = self.step_server_event(d)
        elif kind == 'deep': m = self.step_deep_reuse(d)
        elif kind == 'enum': m = self.step_enum_message(d)
        elif kind == 'title': m = self.step_title(d)
        elif kind == 'retype': m = self.step_retype(d)
        elif kind == 'server_retype': m = self.step_server_retype(d)
        elif kind == 'twins': m = self.step_twins(d)
        elif kind == 'kinds': m = self.step_kinds(d)
        elif kind == 'newer': m = self.step_newer(d)
        elif kind == 'nulls': m = self.step_nulls(d)
        elif kind == 'null_strings': m = self.step_null_strings(d)
        elif kind == 'repeat': m = self.step_repeat(d)
        elif kind == 'midsession': m = self.step_midsession(d)
        elif kind == 'long_line': m = self.step_long_line(d)
        elif kind == 'dead_creates': m = self.step_dead_creates(d)
        elif kind == 'foreign': m = self.step_foreign(d)
        elif kind == 'appid': m = self.step_appid(d)
        elif kind == 'arrays': m = self.step_arrays(d)
        elif kind == 'sync': m = self.step_sync(d)
        elif kind == 'first' and 2 not in self.live and 2 not in self.dead: m = self.step_first(d)
        if m is None:
            m = self.step_message(d)
        self.nmsg += 1
        self.last = m
        return m


def gen_tags(d, nconn, tagged=None):
    if nconn == 1 and not (tagged if tagged is not None else d.chance(0.5)):
        return [None]
    base = d.int(0, 5)
    return [str((base + k) << 8 | d.int(3, 30)) for k in range(nconn)]


def next_gap(d, gaps=None):
    return d.choice(gaps or GAPS) if d.chance(0.7) else d.int(0, 3_000_000)


def history(d, nconn=None, nmsg=None, tagged=None, profile=None, t0=None, gaps=None):
    """list of message specs (with conn tag and t_us) over 1..nconn interleaved connections"""
    nconn = nconn or d.int(1, 3)
    nmsg = nmsg if nmsg is not None else d.int(1, 40)
    tags = gen_tags(d, nconn, tagged)
    conns = [ConnGen(tags[k], d.choice(['client', 'server']), profile) for k in range(nconn)]
    t = t0 if t0 is not None else d.choice([0, 1000, 123456789, 4_000_000_000, d.int(0, 4_000_000_000)])
    out = []
    burst0 = d.int(1, 6) if d.chance(0.3) else 0       # several messages carrying the very time of the first one
    for k in range(nmsg):
        c = d.choice(conns)
        if k > 0 and k > burst0:
            t = min(t + next_gap(d, gaps), T_MAX)     # stated bound: no 32-bit wrap-around of libwayland's clock
        m = c.next(d)
        m['conn'] = c.tag
        if out and m['conn'] == out[-1]['conn'] and all(m[k] == out[-1][k] for k in ('sent', 'iface', 'id', 'name', 'args')) and d.chance(0.5):
            t = out[-1]['t_us']      # an exact duplicate of the previous line
        m['t_us'] = t
        out.append(m)
    return out


def gen_long_template(d):
    """a few drawn choices that `expand_long` turns into a history of thousands of messages (drawing every message would
    exceed what one Hypothesis example can hold): lanes of ids that are created, used, destroyed and handed out again,
    far enough for incarnation letters beyond z (26) and zz (702)"""
    nl = d.int(1, 3)
    ids = []
    while len(ids) < nl:
        i = d.choice([3, 5, 6, 7, 12, 40, 1000, 65535, 0x7fffffff, 0xfeffffff])
        if i not in ids:
            ids.append(i)
    lanes = [dict(id=i, kinds=[d.choice(['callback', 'region', 'surface']) for _ in range(d.int(1, 3))], uses=d.int(0, 2)) for i in ids]
    return dict(side=d.choice(['client', 'client', 'server']), lanes=lanes,
                cycles=d.choice([d.int(27, 60), d.int(703, 760), d.int(703, 760), d.int(1100, 1500)]),
                gap=d.choice([0, 1, 1000, 250_000, 1_000_000]), t0=d.choice([0, 1000, 123456789]), tag=d.choice([None, None, 'c1']))


def expand_long(tpl):
    """deterministic expansion of a template from `gen_long_template`"""
    side = tpl['side']
    sent = lambda is_event: (side == 'client') != is_event
    t = [tpl['t0']]
    out = []

    def emit(is_event, iface, oid, name, args):
        out.append(dict(conn=tpl['tag'], t_us=min(t[0], T_MAX), sent=sent(is_event), iface=iface, id=oid, name=name, args=args))
        t[0] += tpl['gap']
    emit(False, 'wl_display', 1, 'get_registry', [['new', 'wl_registry', 2]])
    emit(False, 'wl_registry', 2, 'bind', [['uint', 1], ['str', 'wl_compositor'], ['uint', 4], ['new', None, 4]])
    for c in range(tpl['cycles']):
        for lane in tpl['lanes']:
            x = lane['id']
            kind = lane['kinds'][c % len(lane['kinds'])]
            if kind == 'callback':
                emit(False, 'wl_display', 1, 'sync', [['new', 'wl_callback', x]])
                for u in range(min(lane['uses'], 1)):
                    emit(True, 'wl_callback', x, 'done', [['uint', c]])
            elif kind == 'region':
                emit(False, 'wl_compositor', 4, 'create_region', [['new', 'wl_region', x]])
                for u in range(lane['uses']):
                    emit(False, 'wl_region', x, 'add', [['int', u], ['int', c], ['int', 1], ['int', 1]])
                emit(False, 'wl_region', x, 'destroy', [])
            else:
                emit(False, 'wl_compositor', 4, 'create_surface', [['new', 'wl_surface', x]])
                for u in range(lane['uses']):
                    emit(False, 'wl_surface', x, 'commit', [])
                emit(False, 'wl_surface', x, 'destroy', [])
            emit(True, 'wl_display', 1, 'delete_id', [['uint', x]])
    return out


def history_with_destroys(d, prof, nconn=None):
    """connections come and go: libwayland destroys one and a later connection lives at the same address - a new connection
    with a fresh table (ids start over). Destruction is an item `dict(destroy=True, conn=tag, t_us=...)`"""
    tags = gen_tags(d, nconn or d.int(1, 2), tagged=True)
    gens = {t: ConnGen(t, d.choice(['client', 'server']), prof) for t in tags}
    specs, t_us = [], d.choice([0, 1000, 123456789])
    for _ in range(d.int(6, 40)):
        tag = d.choice(tags)
        t_us += next_gap(d)
        if gens[tag].started and d.chance(0.12):
            specs.append(dict(destroy=True, conn=tag, t_us=t_us))
            gens[tag] = ConnGen(tag, d.choice(['client', 'server']), prof)
            continue
        m = gens[tag].next(d)
        m['conn'], m['t_us'] = tag, t_us
        specs.append(m)
    return specs


def labels_of(hist):
    """case classes of a history (for the evidence histogram)"""
    from . import model
    L = set()
    W = model.MWorld()
    recs = []
    for m in hist:
        if m.get('destroy'):
            W.close(m['conn'])
            L.add('connection-destroyed')
        else:
            recs.append(W.step(m))
    if len(W.conns) > 1: L.add('multi-connection')
    mx = max((len(l) for c in W.conns.values() for l in c.db.values()), default=1)
    if mx >= 2: L.add('id-reused>=1')
    if mx >= 3: L.add('id-reused>=2')
    if mx >= 27: L.add('id-reused>=26')
    for r in recs:
        m = r['m']
        if r['implicit']: L.add('server-range-reuse')
        if any(o.iface != c.iface for o in r['implicit'] for c in r['created'] if c.id == o.id): L.add('server-range-reuse-other-interface')
        if not r['target_alive'] or any(o is not None and not al for o, al in zip(r['args'], r['args_alive'])): L.add('dead-mention')
        if m['name'] == 'bind' and m['iface'] == 'wl_registry' and m['args'][1][1] in UNKNOWN_IFACES: L.add('bind-unknown-iface')
        if any(a[0] == 'new' and a[2] >= SERVER_BASE for a in m['args']): L.add('event-created-object')
        if not m['args']: L.add('zero-arg-message')
        if len(recs) > 1 and r is not recs[0] and any(p['m'] is not m and p['conn'] is r['conn'] and all(p['m'][k] == m[k] for k in ('sent', 'iface', 'id', 'name', 'args', 't_us')) for p in recs[max(0, recs.index(r) - 1):recs.index(r)]): L.add('duplicate-line')
        if r['destroyed'] is not None: L.add('delete_id')
        if m['iface'] == 'wl_display' and m['name'] == 'delete_id' and r['destroyed'] is None: L.add('delete_id-of-unseen-object')
        if getattr(r['target'], 'ghost', False): L.add('unseen-target' + ('-creates' if r['created'] else ''))
        if any(getattr(o, 'ghost', False) for o in r['args'] if o is not None): L.add('unseen-object-arg')
        for a in m['args']:
            L.add('kind:' + a[0])
    return L
