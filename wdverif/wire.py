"""What libwayland prints: a port of wl_closure_print for the old ('@') and current ('#') dialects.

A message spec is plain data:
    dict(conn=<str|None>, t_us=<int>, sent=<bool>, iface=<str>, id=<int>, name=<str>, args=[arg...])
    arg = ['int', v] | ['uint', v] | ['fixed', raw24.8] | ['str', text|None] | ['obj', iface, id|None]
        | ['new', iface|None, id] | ['array', nbytes] | ['fd', n]
The spec *is* the oracle for "the message this line denotes".

old:     "[%10.3f] " (ms), " -> " when sent, iface@id.name(, fixed as %f of f/256.0, `array`, `fd %d`
current: "[%7u.%03u] ", optional "{queue} ", optional "<conn> " (resources/libwayland-patches), '#',
         fixed as the exact %d.%08d form with C truncating division, `array[%zu]`
"""


def c_div(a, b):  # C truncating division
    q = abs(a) // abs(b)
    return q if (a >= 0) == (b >= 0) else -q


def c_mod(a, b):
    return a - c_div(a, b) * b


def fmt_fixed_new(f):
    if f >= 0:
        return '%d.%08d' % (c_div(f, 256), 390625 * c_mod(f, 256))
    return '-%d.%08d' % (c_div(f, -256), -390625 * c_mod(f, 256))


def fmt_fixed_old(f, comma=False):
    s = '%f' % (f / 256.0)
    return s.replace('.', ',') if comma else s


def timestamp(t_us, dialect, comma=False):
    t = t_us & 0xffffffff
    if dialect == 'old':
        ts = '[%10.3f] ' % (t / 1000.0)
        if comma:
            ts = ts.replace('.', ',')
        return ts
    return '[%7u.%03u] ' % (t // 1000, t % 1000)


def render_arg(a, dialect, comma=False):
    sep = '@' if dialect == 'old' else '#'
    k = a[0]
    if k == 'uint':
        return '%d' % (a[1] & 0xffffffff)
    if k == 'int':
        return '%d' % a[1]
    if k == 'fixed':
        return fmt_fixed_old(a[1], comma) if dialect == 'old' else fmt_fixed_new(a[1])
    if k == 'str':
        return 'nil' if a[1] is None else '"%s"' % a[1]
    if k == 'obj':
        return 'nil' if a[2] is None else '%s%s%d' % (a[1], sep, a[2])
    if k == 'new':
        return 'new id %s%s%d' % (a[1] if a[1] is not None else '[unknown]', sep, a[2])
    if k == 'array':
        return 'array' if dialect == 'old' else 'array[%d]' % a[1]
    if k == 'fd':
        return 'fd %d' % a[1]
    raise ValueError(k)


def render(m, dialect='new', queue=None, comma=False):
    """m: message spec; dialect 'old'|'new'."""
    if dialect == 'gdb-shaped':
        dialect = 'new'
    sep = '@' if dialect == 'old' else '#'
    out = timestamp(m['t_us'], dialect, comma)
    if dialect == 'new' and queue is not None:
        out += '{%s} ' % queue
    if m.get('conn') is not None:
        out += '<%s> ' % m['conn']
    out += '%s%s%s%d.%s(' % (' -> ' if m['sent'] else '', m['iface'], sep, m['id'], m['name'])
    return out + ', '.join(render_arg(a, dialect, comma) for a in m['args']) + ')'
