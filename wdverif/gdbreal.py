"""Real gdb on a generated mock of libwayland (grounds the gdb stand-in in real gdb.Value semantics).

A list of steps (closure specs of gdbsim / connection destructions) is turned into one C file with static
initialisers that uses struct, member and function names identical to libwayland's (extract.py addresses
everything by name), compiled with `gcc -g -O0` and run under the real gdb with the *unmodified* Plugin and
extract.py loaded; every breakpoint hit is dumped as one JSON record.
"""
import os, json, subprocess, shutil
from . import env, cli

PRELUDE = r'''
#include <stdint.h>
#include <stddef.h>
typedef int32_t wl_fixed_t;
struct wl_interface { const char *name; int version; int method_count; const void *methods; int event_count; const void *events; };
struct wl_object { const struct wl_interface *interface; const void *implementation; uint32_t id; };
struct wl_array { size_t size; size_t alloc; void *data; };
union wl_argument { int32_t i; uint32_t u; wl_fixed_t f; const char *s; struct wl_object *o; uint32_t n; struct wl_array *a; int32_t h; };
struct wl_message { const char *name; const char *signature; const struct wl_interface **types; };
struct wl_list { struct wl_list *prev; struct wl_list *next; };
struct wl_connection { int fd; int want_flush; };
struct wl_display;
struct wl_proxy { struct wl_object object; struct wl_display *display; };
struct wl_closure { int count; const struct wl_message *message; uint32_t opcode; uint32_t sender_id; union wl_argument args[20]; struct wl_list link; struct wl_proxy *proxy; };
struct wl_display { struct wl_proxy proxy; struct wl_connection *connection; };
struct wl_client { struct wl_connection *connection; struct wl_display *display; };
struct wl_resource { struct wl_object object; void *destroy; struct wl_list link; struct wl_client *client; };
volatile int sink;
void wl_closure_invoke(struct wl_closure *closure, uint32_t flags, struct wl_object *target, uint32_t opcode, void *data) { sink += closure->count; }
void wl_closure_dispatch(struct wl_closure *closure, void *dispatcher, struct wl_object *target, uint32_t opcode) { sink += closure->count; }
int serialize_closure(struct wl_closure *closure, uint32_t *buffer, size_t buffer_count) { sink += closure->count; return 0; }
int wl_closure_send(struct wl_closure *closure, struct wl_connection *connection) { return serialize_closure(closure, 0, 0) + connection->fd * 0; }
int wl_closure_queue(struct wl_closure *closure, struct wl_connection *connection) { return serialize_closure(closure, 0, 0) + connection->fd * 0; }
void dispatch_event(struct wl_display *display, struct wl_closure *closure, struct wl_object *target, int dispatch) {
    if (dispatch) wl_closure_dispatch(closure, 0, target, 0); else wl_closure_invoke(closure, 0, target, 0, 0); sink += display->connection->fd; }
void wl_client_connection_data(struct wl_client *client, struct wl_closure *closure, struct wl_object *target, int dispatch) {
    if (dispatch) wl_closure_dispatch(closure, 0, target, 0); else wl_closure_invoke(closure, 0, target, 0, 0); sink += client->connection->fd; }
void wl_connection_destroy(struct wl_connection *connection) { sink += connection->fd; }
'''


def c_str(s):
    if s is None:
        return '0'
    out = '"'
    for b in s.encode('utf-8'):
        if b in (34, 92) or b < 32 or b > 126:
            out += '\\%03o' % b
        else:
            out += chr(b)
    return out + '"'


def generate_c(steps):
    ifaces = {}

    def iface(name):
        if name is None:
            return '0'
        if name not in ifaces:
            ifaces[name] = 'iface_%d' % len(ifaces)
        return '&' + ifaces[name]
    decls, body = [], []
    nconn = 1 + max([s['conn'] for s in steps if s.get('kind', 'msg') == 'msg'] + [s['conn'] for s in steps if s.get('kind') == 'destroy'] + [0])
    for k, s in enumerate(steps):
        if s.get('kind') == 'destroy':
            body.append('    wl_connection_destroy(&conn_%d);' % s['conn'])
            continue
        p = 's%d' % k
        slots = []
        for j, a in enumerate(s['args']):
            c = a[0]
            if c == 'i': slots.append('{ .i = %d }' % a[1] if a[1] != -2**31 else '{ .i = (-2147483647 - 1) }')
            elif c == 'u': slots.append('{ .u = %uu }' % a[1])
            elif c == 'h': slots.append('{ .h = %d }' % a[1])
            elif c == 'f': slots.append('{ .f = %d }' % a[1] if a[1] != -2**31 else '{ .f = (-2147483647 - 1) }')
            elif c == 's': slots.append('{ .s = %s }' % c_str(a[1]))
            elif c == 'o':
                if a[2] is None:
                    slots.append('{ .o = 0 }')
                else:
                    decls.append('static struct wl_object %s_o%d = { %s, 0, %uu };' % (p, j, iface(a[1]), a[2]))
                    slots.append('{ .o = &%s_o%d }' % (p, j))
            elif c == 'n':
                as_obj = (not s['sent']) and s['side'] == 'client'
                if as_obj:
                    decls.append('static struct wl_proxy %s_p%d = { { %s, 0, %uu }, 0 };' % (p, j, iface(s['types'][j]), a[1]))
                    slots.append('{ .o = &%s_p%d.object }' % (p, j))
                else:
                    slots.append('{ .n = %uu }' % a[1])
            elif c == 'a':
                if a[1]:
                    decls.append('static int32_t %s_d%d[] = { %s };' % (p, j, ', '.join('%d' % x if x != -2**31 else '(-2147483647 - 1)' for x in a[1])))
                    decls.append('static struct wl_array %s_a%d = { %d, %d, %s_d%d };' % (p, j, 4 * len(a[1]), 4 * len(a[1]) + 16, p, j))
                else:
                    decls.append('static struct wl_array %s_a%d = { 0, 0, 0 };' % (p, j))
                slots.append('{ .a = &%s_a%d }' % (p, j))
        # unused slots are poisoned
        while len(slots) < 20:
            slots.append('{ .u = 0x5a5a5a5au }')
        types = ', '.join(iface(t) for t in s['types']) or '0'
        decls.append('static const struct wl_interface *%s_types[] = { %s };' % (p, types))
        decls.append('static const struct wl_message %s_msg = { %s, %s, %s_types };' % (p, c_str(s['name']), c_str(s['signature']), p))
        decls.append('static struct wl_closure %s_clo = { %d, &%s_msg, 0, %uu, { %s }, { 0, 0 }, 0 };' % (p, len(s['args']), p, s['sender_id'], ', '.join(slots)))
        disp = 1 if s.get('via') == 'wl_closure_dispatch' else 0
        if s['sent']:
            body.append('    %s(&%s_clo, &conn_%d);' % (s.get('via') if s.get('via') in ('wl_closure_send', 'wl_closure_queue') else 'wl_closure_send', p, s['conn']))
        elif s['side'] == 'client':
            decls.append('static struct wl_proxy %s_target = { { %s, 0, %uu }, 0 };' % (p, iface(s['target_iface']), s['sender_id']))
            body.append('    dispatch_event(&display_%d, &%s_clo, &%s_target.object, %d);' % (s['conn'], p, p, disp))
        else:
            decls.append('static struct wl_resource %s_target = { { %s, 0, %uu }, 0, { 0, 0 }, &client_%d };' % (p, iface(s['target_iface']), s['sender_id'], s['conn']))
            body.append('    wl_client_connection_data(&client_%d, &%s_clo, &%s_target.object, %d);' % (s['conn'], p, p, disp))
    head = [PRELUDE]
    for n, v in ifaces.items():
        head.append('static const struct wl_interface %s = { %s, 1, 0, 0, 0, 0 };' % (v, c_str(n)))
    for i in range(nconn):
        head.append('static struct wl_connection conn_%d = { %d, 0 };' % (i, 5 + i))
        head.append('static struct wl_display display_%d = { { { 0, 0, 1 }, 0 }, &conn_%d };' % (i, i))
        head.append('static struct wl_client client_%d = { &conn_%d, 0 };' % (i, i))
    return '\n'.join(head + decls + ['int main(void) {'] + body + ['    return 0;', '}', ''])


HARNESS = r'''
import sys, json, os, traceback
sys.path.insert(0, %(repo)r)
sys.dont_write_bytecode = True
import gdb
records = []
try:
    import logging
    logging.getLogger().setLevel(logging.ERROR)
    from core import ConnectionManager, matcher, wl
    from core.wl import protocol
    from core.output import Output, stream
    from frontends.tui import Controller
    from backends.gdb_plugin import plugin as plugin_mod, extract
    out, err = stream.String(), stream.String()
    output = Output(False, True, out, err)
    cm = ConnectionManager()
    ctl = Controller(output, cm, matcher.always, matcher.never)
    p = plugin_mod.Plugin(output, cm, ctl, ctl)

    def describe(a):
        A = wl.Arg
        if type(a) is A.Int: return ['Int', a.value]
        if type(a) is A.Float: return ['Float', a.value]
        if type(a) is A.String: return ['String', a.value]
        if type(a) is A.Null: return ['Null', a.type]
        if type(a) is A.Object: return ['New' if a.is_new else 'Object', a.obj.id, a.obj.type]
        if type(a) is A.Array: return ['Array', None if a.values is None else [describe(v) for v in a.values]]
        if type(a) is A.Fd: return ['Fd', a.value]
        return [type(a).__name__]
    orig_pm, orig_cc = p.process_message, p.close_connection

    def process_message(connection_id, message):
        records.append(dict(kind='msg', conn=connection_id, name=message.name, sent=message.sent, id=message.obj.id, iface=message.obj.type,
                            args=[describe(a) for a in message.args], thread=gdb.selected_thread().global_num))
        try:
            orig_pm(connection_id, message)
        except Exception as e:
            records[-1]['processing_error'] = '%%s: %%s' %% (type(e).__name__, e)

    def close_connection(connection_id):
        records.append(dict(kind='destroy', conn=connection_id))
        orig_cc(connection_id)
    p.process_message = process_message
    p.close_connection = close_connection
    for c in %(commands)r:
        ctl.process_command(c)
    halts = []
    gdb.execute('run')
    for _ in range(10000):
        try:
            inf = gdb.selected_inferior()
            alive = inf.pid != 0 and len(inf.threads()) > 0
        except Exception:
            alive = False
        if not alive:
            break
        # gdb halted the program: at which message?
        halts.append(len([r for r in records if r['kind'] == 'msg']))
        gdb.execute('continue')
    status = 'ok'
except BaseException as e:
    status = 'harness: ' + ''.join(traceback.format_exception(type(e), e, e.__traceback__))[-1500:]
try:
    alive = gdb.selected_inferior().pid != 0
except Exception:
    alive = None
json.dump(dict(status=status, records=records, halts=halts if 'halts' in dir() else [], still_alive=alive, out=out.buffer if 'out' in dir() else '', err=err.buffer if 'err' in dir() else '',
               connections=[[c.name(), c.is_open(), len(c.messages())] for c in cm.connections()] if 'cm' in dir() else []),
          open(%(result)r, 'w'))
'''


def available():
    return cli.real_gdb() is not None and shutil.which('gcc') is not None


def run_steps(steps, scratch, commands=()):
    """returns dict(status=..., records=[...]) or dict(status='skipped: ...')"""
    if not available():
        return dict(status='skipped: no gdb or no gcc')
    src = scratch.write('mock.c', generate_c(steps))
    exe = scratch.path('mock')
    r = subprocess.run(['gcc', '-g', '-O0', '-fno-inline', '-o', exe, src], capture_output=True, text=True)
    if r.returncode != 0:
        return dict(status='harness: mock does not compile: ' + r.stderr[-800:])
    result = scratch.path('result.json')
    harness = scratch.write('harness.py', HARNESS % dict(repo=env.REPO, result=result, commands=list(commands)))
    e = cli.base_env()
    try:
        g = subprocess.run([cli.real_gdb(), '-batch', '-nx', '-ex', 'set confirm off', '-ex', 'set debuginfod enabled off', '-ex', 'source ' + harness, exe],
                           capture_output=True, text=True, env=e, timeout=120, stdin=subprocess.DEVNULL)
    except subprocess.TimeoutExpired:
        return dict(status='skipped: gdb timed out')
    if not os.path.exists(result):
        return dict(status='skipped: gdb produced no result (%s)' % (g.stdout + g.stderr)[-400:])
    res = json.load(open(result))
    res['gdb_output'] = (g.stdout + g.stderr)[-1500:]
    if res['status'] == 'ok' and not res['records'] and ('ptrace' in res['gdb_output'] or 'Operation not permitted' in res['gdb_output']):
        res['status'] = 'skipped: gdb cannot trace in this sandbox'
    return res
