"""Scripted sessions for C06/C11 (and reused by C16/C17): a generated history streams in while
filter / connection / list / breakpoint / unknown commands are issued at generated points.  The
evaluator walks the segments (session.py) with a small model of the controller state: current filter
(as matcher text, parsed independently), selected connection, recorded messages."""
import re
from . import env, histgen, model, session, wire, refmatch as rm
from .accmodel import Model as AccModel, atom_matcher

MALFORMED = ['(', 'a.b.c', '[x', 'x ! y ! z', 'wl_a@5', '"', 'a(b)c']


def gen_matcher_text(d, g, simple_ok=True, want_ast=False):
    if simple_ok and d.chance(0.15):
        t = d.choice(['*', 'wl_*', '.new', '.destroyed', 'wl_display', 'wl_registry.bind', '2', '3a', 'A:', 'B:', '(nil)', '.delete_id'])
        return (t, None) if want_ast else t
    ast = g.top()
    t = rm.render(ast, rm.Plain())
    return (t, ast) if want_ast else t


def gen_script(d, specs, dialect, weights=None, list_heavy=False, unresolved=True, depth=1):
    """items: ['line', text] | ['cmd', text]"""
    V = rm.vocab(specs)
    g = rm.Gen(d, V, depth)
    items = []
    p_cmd = 0.35 if list_heavy else 0.3
    simple = ['wl_display', 'wl_registry', 'wl_callback', '.bind', '.sync', '.delete_id', '.new', '.destroyed', '2', '3', 'A:', 'B:'] + [
        str(t) for t in V.get('type', [])[:6]] + ['.' + str(n) for n in V.get('name', [])[:6]]
    last_acc = []
    for m in specs:
        while d.chance(p_cmd):
            k = d.weighted([(4, 'filter'), (5, 'connection'), (10 if list_heavy else 3, 'list'), (3, 'breakpoint'), (1, 'other'), (4, 'filter-acc')])
            if k == 'filter-acc':
                # extends the current filter (no reset): alternatives and/or exclusions made of simple atoms
                alts = [d.choice(simple) for _ in range(d.int(0, 2))]
                if d.chance(0.15):
                    # an alternative that selects everything: earlier alternatives stop mattering, earlier exclusions stay
                    alts.insert(d.int(0, len(alts)), d.choice(['*', '*.*', '*', '* . *']))
                excl = [d.choice(simple) for _ in range(d.int(0 if alts else 1, 1))]
                t = (', '.join(alts) + (' ! ' + ', '.join(excl) if excl else '')).strip()
                items.append(['cmd', 'filter ' + t, None, dict(alts=alts, excl=excl)])
                last_acc.append(t)
                if d.chance(0.25) and not any('*' in a for a in alts):
                    # ... and then extended by a list with an alternative that selects everything (the exclusions so far stay)
                    alts2 = [d.choice(['*', '*.*', '* . *'])] + [d.choice(simple) for _ in range(d.int(0, 1))]
                    excl2 = [d.choice(simple) for _ in range(d.int(0, 1))]
                    items.append(['cmd', 'filter ' + ', '.join(alts2) + (' ! ' + ', '.join(excl2) if excl2 else ''), None, dict(alts=alts2, excl=excl2)])
                continue
            if k == 'filter':
                items.append(['cmd', d.choice(['filter !', 'f !', 'filter  !'])])
                items.append(['cmd', d.choice(['filter ', 'fil ', 'f ', 'wlfilter ', 'wl filter ']) + gen_matcher_text(d, g)])
            elif k == 'connection':
                items.append(['cmd', d.choice(['connection ', 'c ', 'conn ']) + d.choice(['A', 'B', 'A', 'B', 'C', 'a', 'b', 'all', 'all', 'Z', 'AA'])])
            elif k == 'list':
                ast = None
                if d.chance(0.3): mt = ''
                elif d.chance(0.06): mt = d.choice(MALFORMED)
                else: mt, ast = gen_matcher_text(d, g, want_ast=True)
                if last_acc and d.chance(0.3):
                    mt, ast = d.choice(last_acc), None         # the very text given to an earlier filter command
                cap = d.choice(['', '', ' ~ 1', ' ~ 2', '~3', ' ~ 0', ' ~ 50', '~1', ' ~5', ' ~ x'])
                if d.chance(0.3):
                    k = sum(1 for i in items if i[0] == 'line')      # recorded so far: caps at, just above and up to twice that
                    cap = ' ~ %d' % max(1, d.choice([k - 1, k, k + 1, k + 2, (3 * k) // 2, 2 * k - 1, 2 * k, 2 * k + 1]))
                    if d.chance(0.5):
                        mt, ast = d.choice(['', '*']), None
                items.append(['cmd', d.choice(['list ', 'l ', 'li ']) + mt + cap] + ([None, dict(ast=ast)] if ast is not None else []))
            elif k == 'breakpoint':
                if d.chance(0.6):
                    # breakpoints never influence what is displayed (shared state between the two matchers would)
                    alts = [d.choice(simple) for _ in range(d.int(1, 2))]
                    excl = [d.choice(simple) for _ in range(d.int(0, 1))]
                    items.append(['cmd', 'breakpoint ' + ', '.join(alts) + (' ! ' + ', '.join(excl) if excl else '')])
                else:
                    items.append(['cmd', 'breakpoint ' + gen_matcher_text(d, g)])
            else:
                items.append(['cmd', d.choice(['help', 'frobnicate', 'filter', 'breakpoint', 'connection', 'matcher wl_surface', 'h list', '', 'li'])])
        items.append(['line', wire.render(m, dialect), m['conn']])
        blanks = [a[1] for a in m['args'] if a[0] == 'str' and a[1] and '  ' in a[1] and not set(a[1]) & set('"()[],!~')]
        if blanks and d.chance(0.6):
            # a string with a run of blanks just went by: ask for it by its text (the command line reaches the matcher blank for blank)
            items.append(['cmd', d.choice(['list ', 'l  ', 'wl list ', 'list  ']) + d.choice(['("%s")', '.("%s")', '( "%s" )']) % d.choice(blanks) + d.choice(['', ' ~ 5'])])
        if unresolved and d.chance(0.08):
            # a message on an object the log never showed being created (recorded and listed like any other)
            sep = '@' if dialect == 'old' else '#'
            tagtxt = ('<%s> ' % m['conn']) if m['conn'] is not None else ''
            body = d.choice(['wl_output%s%d.scale(2)', 'wl_surface%s%d.commit()', 'zz_unknown%s%d.frob(1, "x")', 'wl_callback%s%d.done(7)']) % (sep, 900 + d.int(0, 5))
            if d.chance(0.4):
                # ... while the view is restricted to one connection by the filter: the message belongs to the connection it arrived on
                c = d.choice(['A:', 'B:', 'A:'])
                items.append(['cmd', 'filter !'])
                items.append(['cmd', 'filter ' + c, None, dict(alts=[c], excl=[])])
            items.append(['line', wire.timestamp(m['t_us'], dialect) + tagtxt + d.choice(['', ' -> ']) + body, m['conn']])
    return items


def seg_tag(s, seg):
    it = s.io.items[seg.index]
    t = it[2] if len(it) > 2 else None
    return t if t is not None else 'PARSED'


class Walker:
    """replays the segments of a finished session against the model of the controller state"""
    def __init__(self, s, res, initial_filter=None):
        from core import matcher
        self.s = s
        self.res = res
        self.matcher = matcher
        self.filter_text = initial_filter          # None = '*'
        self.filter = matcher.parse(initial_filter).simplify() if initial_filter else matcher.always
        self.filter_never = False
        if initial_filter and self.filter.always() is True:
            initial_filter = None                  # a start-up filter that selects everything is no filter: the next one replaces it
            self.filter_text = None
        elif initial_filter and self.filter.always() is False:
            self.filter_never = True               # ... and one that selects nothing is `!`
            self.filter_text = '!'
        # accumulation (`filter X` without a reset): a model over atoms is exact as long as the current filter was built from
        # atoms; after an opaque (generated, possibly nested) matcher was installed, extending it makes the expectation unknown
        self.acc = AccModel(matcher, 'star')
        if self.filter_never:
            self.acc.reset_never()
        self.acc_parsed = {}
        self.opaque = bool(initial_filter) and not self.filter_never
        self.unknown = False
        self.sel = None                            # selected connection name
        self.recorded = []                         # real messages in arrival order
        self.conn_names = []                       # names of connections opened so far
        self.tag_names = {}                        # connection tag -> name (by first appearance)
        self.app_ids = {}                          # connection name -> app id
        self.conn_of = {}                          # id(message) -> connection name
        self.mi = 0
        self.changes = dict(filter=0, selection=0, shown=0, hidden=0, listings=0)

    def pool(self):
        return [r for r in self.recorded if self.sel is None or self.conn_of[id(r)] == self.sel]

    def parse(self, text):
        try:
            return self.matcher.parse(text).simplify()
        except RuntimeError:
            return None

    def on_line(self, seg):
        """returns (msg, expected_shown, shown_lines)"""
        msgs = self.s.ctl.all_messages
        if self.mi >= len(msgs):
            self.res.bad('message-not-recorded', 'line %r produced no recorded message' % seg.text)
            return None, None, []
        m = msgs[self.mi]
        self.mi += 1
        self.recorded.append(m)
        tag = seg_tag(self.s, seg)
        if tag not in self.tag_names:
            self.tag_names[tag] = model.letters(len(self.tag_names), caps=True)
        name = self.tag_names[tag]
        self.conn_of[id(m)] = name
        if m.obj.connection is not None and m.obj.connection.name() != name:
            self.res.bad('message-on-wrong-connection', '%r attributed to %s, its tag says %s' % (seg.text, m.obj.connection.name(), name))
        if name not in self.conn_names:
            self.conn_names.append(name)
        from core import wl as _wl
        if m.name == 'set_app_id' and m.args and isinstance(m.args[0], _wl.Arg.String) and m.args[0].value:
            self.app_ids[name] = m.args[0].value     # `connection X` falls back to the app id when no connection is named X
        exp = (self.sel is None or name == self.sel) and self.filter_matches(m)
        shown = [l for l in seg.out_lines() if session.MSG_LINE.match(l)]
        return m, exp, shown

    def filter_matches(self, m):
        """True/False, or None when the current filter's meaning is not determined by the model"""
        if self.unknown:
            return None
        if self.filter_never:
            return False
        if self.opaque:
            # a fresh instance per message: the expectation is a function of (expression, message) only
            return self.parse(self.filter_text).matches(m) if self.filter_text not in (None, '!') else self.filter.matches(m)
        return self.acc.expect(self.acc_parsed, m)

    def on_cmd_state(self, text, meta=None):
        """update the model for a state-changing command; returns the command kind"""
        t = text.strip()
        parts = re.split(r'\s', t, maxsplit=1)
        first = parts[0] if parts else ''
        second = parts[1].strip() if len(parts) > 1 else ''
        if first in ('w', 'wl'):
            return self.on_cmd_state(second)
        if first.startswith('wl'):
            first = first[2:]
        if first == '':
            return 'empty'
        cands = [c for c in ('help', 'list', 'filter', 'breakpoint', 'matcher', 'connection', 'resume', 'quit') if c.startswith(first)]
        if len(cands) != 1:
            return 'unknown'
        cmd = cands[0]
        if cmd == 'filter' and second:
            if second == '!':
                self.filter_never = True
                self.filter_text = '!'
                self.unknown = False
                self.opaque = False
                self.acc.reset_never()
            elif meta is not None:
                # accumulating command made of simple atoms
                for a in meta['alts'] + meta['excl']:
                    if a not in self.acc_parsed:
                        self.acc_parsed[a] = atom_matcher(self.matcher, a)
                if self.opaque and not self.filter_never:
                    self.unknown = True
                else:
                    self.acc.apply(meta['alts'], meta['excl'])
                    self.filter_never = False
                    self.opaque = False
                self.filter_text = (self.filter_text or '*') + ' + ' + second
                self.changes['filter'] += 1
            elif self.filter_never or self.acc.const is not None and not self.opaque and not self.unknown:
                p = self.parse(second)
                if p is not None:
                    self.filter = p
                    self.filter_text = second
                    self.filter_never = False
                    self.opaque = True
                    self.unknown = False
                    self.changes['filter'] += 1
            else:
                # an opaque matcher joined onto a non-constant filter: meaning not modelled here (C12's business)
                if self.parse(second) is not None:
                    self.unknown = True
        elif cmd == 'connection' and second:
            if second == 'all':
                if self.sel is not None:
                    self.changes['selection'] += 1
                self.sel = None
            else:
                target = next((n for n in self.conn_names if n is not None and n.lower() == second.lower()), None)
                if target is None:
                    target = next((n for n in self.conn_names if self.app_ids.get(n, '').lower() == second.lower()), None)
                if target is not None:
                    if self.sel != target:
                        self.changes['selection'] += 1
                    self.sel = target
        return cmd + (':arg' if second else '')


def run_script(case, res, color=False):
    s = session.Session(color=color, filter_text=case.get('initial_filter'), break_text=case.get('initial_break'))
    segs = s.run(case['items'])
    return s, segs
