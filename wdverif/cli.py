"""Subprocess drivers: main.py in file / pipe / run mode, a child emitter that reports what it was
started with, and a gdb shim that records its argv and lets the *real* gdb evaluate the python command."""
import os, sys, json, subprocess, tempfile, shutil
from . import env

PY = sys.executable
MAIN = os.path.join(env.REPO, 'main.py')

CHILD = r'''
import sys, os, json, time
spec = json.load(open(os.environ['WDV_CHILD_SPEC']))
json.dump({'argv': sys.argv[1:], 'wayland_debug': os.environ.get('WAYLAND_DEBUG'), 'ld': os.environ.get('LD_LIBRARY_PATH')}, open(spec['report'], 'w'))
if spec.get('stdout'):
    os.write(1, spec['stdout'].encode('utf-8', 'surrogateescape'))
for chunk, delay in spec['chunks']:
    os.write(2, bytes(chunk))
    if delay:
        time.sleep(delay)
if spec.get('linger'):
    # a program that closes its stderr (daemonises, redirects it) and only exits later
    os.close(2)
    time.sleep(spec['linger'])
os._exit(spec['exit'])
'''

GDB_SHIM = r'''#!%(py)s
import sys, os, json, subprocess
rec = os.environ['WDV_GDB_RECORD']
json.dump({'argv': sys.argv[1:], 'pythonpath': os.environ.get('PYTHONPATH'), 'ld': os.environ.get('LD_LIBRARY_PATH')}, open(rec, 'w'))
# let the real gdb evaluate exactly the python command it was given (argv[1] == '-ex', argv[2] == command)
cmd = ['%(gdb)s', '-batch', '-nx']
if len(sys.argv) > 2 and sys.argv[1] == '-ex':
    cmd += ['-ex', sys.argv[2]]
r = subprocess.run(cmd, stdin=subprocess.DEVNULL, stdout=subprocess.PIPE, stderr=subprocess.STDOUT)
open(rec + '.gdbout', 'wb').write(r.stdout)
sys.exit(r.returncode)
'''

PROBE = r'''
import sys, os, json
json.dump([[ord(c) for c in w] for w in sys.argv], open(os.environ['WDV_PROBE_OUT'], 'w'))      # code points: text would hide lone surrogates
'''


class Scratch:
    """fresh scratch directory per run (outside /repo and /verif), removed on exit"""
    def __init__(self):
        self.dir = tempfile.mkdtemp(prefix='wdv-cli-')

    def path(self, name):
        return os.path.join(self.dir, name)

    def write(self, name, data, mode='w', exe=False):
        p = self.path(name)
        with open(p, mode) as f:
            f.write(data)
        if exe:
            os.chmod(p, 0o755)
        return p

    def close(self):
        shutil.rmtree(self.dir, ignore_errors=True)

    def __enter__(self):
        return self

    def __exit__(self, *a):
        self.close()


def base_env(extra=None):
    e = {k: v for k, v in os.environ.items() if k not in ('WAYLAND_DEBUG', 'PYTHONPATH', 'LD_LIBRARY_PATH')}
    e.update(LC_ALL='C.UTF-8', LANG='C.UTF-8', PYTHONDONTWRITEBYTECODE='1', PYTHONHASHSEED='0')
    e.pop('PYTHONIOENCODING', None)
    if extra:
        e.update(extra)
    return e


def run_main(argv, stdin=b'', extra_env=None, timeout=120, cwd=None):
    """returns (returncode, stdout bytes, stderr bytes); returncode None on timeout"""
    try:
        r = subprocess.run([PY, MAIN] + list(argv), input=stdin, stdout=subprocess.PIPE, stderr=subprocess.PIPE,
                           env=base_env(extra_env), timeout=timeout, cwd=cwd)
        return r.returncode, r.stdout, r.stderr
    except subprocess.TimeoutExpired as e:
        return None, e.stdout or b'', e.stderr or b''


def run_main_slow_stdin(argv, pieces, extra_env=None, timeout=120):
    """main.py fed through a pipe by a producer that takes its time: pieces = [(bytes, seconds to wait *before* writing them)];
    returns (returncode, stdout, stderr) like run_main"""
    import threading, time
    p = subprocess.Popen([PY, MAIN] + list(argv), stdin=subprocess.PIPE, stdout=subprocess.PIPE, stderr=subprocess.PIPE, env=base_env(extra_env))

    def feed():
        try:
            for data, delay in pieces:
                if delay:
                    time.sleep(delay)
                p.stdin.write(bytes(data))
                p.stdin.flush()
            p.stdin.close()
        except (BrokenPipeError, ValueError, OSError):
            pass
    bufs = {}

    def drain(name, f):
        bufs[name] = f.read()
    ts = [threading.Thread(target=feed, daemon=True), threading.Thread(target=drain, args=('out', p.stdout), daemon=True),
          threading.Thread(target=drain, args=('err', p.stderr), daemon=True)]
    for t in ts:
        t.start()
    try:
        p.wait(timeout=timeout)
        for t in ts:
            t.join(timeout=10)
        return p.returncode, bufs.get('out', b''), bufs.get('err', b'')
    except subprocess.TimeoutExpired:
        p.kill()
        return None, b'', b''


def run_main_on_terminal(argv, stdin=b'', stdin_terminal=False, extra_env=None, timeout=60):
    """main.py with its standard output on a (pseudo) terminal, as when started from a shell without redirection; standard input is
    a pipe carrying `stdin`, or - stdin_terminal - a terminal of its own at which `stdin` is typed. Returns (returncode, what
    reached the terminal, stderr); returncode None on timeout"""
    import pty, select, time, termios
    m_out, s_out = pty.openpty()
    m_in = s_in = None
    try:
        if stdin_terminal:
            m_in, s_in = pty.openpty()
            attrs = termios.tcgetattr(s_in)
            attrs[3] &= ~termios.ECHO          # what is typed is not echoed into the comparison
            termios.tcsetattr(s_in, termios.TCSANOW, attrs)
        p = subprocess.Popen([PY, MAIN] + list(argv), stdin=s_in if stdin_terminal else subprocess.PIPE, stdout=s_out, stderr=subprocess.PIPE,
                             env=base_env(extra_env), close_fds=True)
        os.close(s_out)
        s_out = None
        if stdin_terminal:
            os.close(s_in)
            s_in = None
            os.write(m_in, stdin)
        else:
            try:
                p.stdin.write(stdin)
                p.stdin.close()
            except (BrokenPipeError, OSError):
                pass
        out = b''
        t_end = time.time() + timeout
        while time.time() < t_end:
            r, _, _ = select.select([m_out], [], [], 0.2)
            if r:
                try:
                    chunk = os.read(m_out, 65536)
                except OSError:
                    break           # the other end is closed: the program is gone
                if not chunk:
                    break
                out += chunk
            elif p.poll() is not None:
                break
        if p.poll() is None:
            try:
                p.wait(timeout=max(0.1, t_end - time.time()))
            except subprocess.TimeoutExpired:
                p.kill()
                p.wait()
                return None, out, b''
        err = p.stderr.read()
        return p.returncode, out, err
    finally:
        for fd in (m_out, s_out, m_in, s_in):
            if fd is not None:
                try: os.close(fd)
                except OSError: pass


def real_gdb():
    for p in ('/usr/bin/gdb', '/usr/local/bin/gdb'):
        if os.path.exists(p):
            return p
    return shutil.which('gdb')
