#!/usr/bin/env python3
"""Sensitivity protocol (DESIGN section 5): run checks against deliberately broken copies of the repo.

  tools/sensitivity.py [--only C02,C03] [--mutant NAME] [--jobs N]

Each mutant = (name, properties that must catch it, file, old text, new text). The repo is copied to a
fresh temp dir outside /repo and /verif, the replacement applied, `WDV_REPO=<copy> ./check <ID> --tier quick
--no-evidence` is run and must exit 1 with a VIOLATION line; the copy is removed. Results -> sensitivity.json.
"""
import os, sys, json, shutil, subprocess, tempfile, argparse, time
from concurrent.futures import ThreadPoolExecutor
V = os.path.dirname(os.path.dirname(os.path.abspath(__file__)))
REPO = os.environ.get('WDV_REPO_SRC', '/repo')
sys.path.insert(0, V)
from tools.mutants import MUTANTS   # noqa


def run_one(mut, pid, seed):
    name, props, path, old, new = mut
    tmp = tempfile.mkdtemp(prefix='wdv-mut-')
    try:
        dst = os.path.join(tmp, 'repo')
        shutil.copytree(REPO, dst, ignore=shutil.ignore_patterns('.git', '__pycache__', '.pytest_cache'))
        p = os.path.join(dst, path)
        s = open(p).read()
        if s.count(old) < 1:
            return dict(mutant=name, property=pid, status='STALE (old text not found)')
        open(p, 'w').write(s.replace(old, new, 1))
        env = dict(os.environ, WDV_REPO=dst, VERIF_SEED=str(seed), WDV_NO_SHRINK='1')
        t0 = time.time()
        r = subprocess.run([os.path.join(V, 'check'), pid, '--tier', 'quick', '--no-evidence'], env=env, capture_output=True, text=True)
        caught = r.returncode == 1 and 'VIOLATION property=' + pid in r.stdout
        buckets = sorted({l.split(']')[0][len('discrepancy ['):] for l in r.stdout.splitlines() if l.startswith('discrepancy [')})
        return dict(mutant=name, property=pid, status='caught' if caught else 'MISSED rc=%d' % r.returncode,
                    wall_s=round(time.time() - t0, 1), buckets=buckets[:6], stderr=r.stderr[-300:] if r.returncode == 2 else '')
    finally:
        shutil.rmtree(tmp, ignore_errors=True)


def main():
    ap = argparse.ArgumentParser()
    ap.add_argument('--only')
    ap.add_argument('--mutant')
    ap.add_argument('--jobs', type=int, default=3)
    ap.add_argument('--seed', type=int, default=1)
    a = ap.parse_args()
    only = set(a.only.split(',')) if a.only else None
    jobs = []
    for mut in MUTANTS:
        if a.mutant and a.mutant not in mut[0]:
            continue
        for pid in mut[1]:
            if only and pid not in only:
                continue
            jobs.append((mut, pid))
    with ThreadPoolExecutor(a.jobs) as ex:
        results = list(ex.map(lambda j: run_one(j[0], j[1], a.seed), jobs))
    for r in results:
        print('%-44s %-4s %-22s %6ss %s' % (r['mutant'], r['property'], r['status'], r.get('wall_s', ''), ','.join(r.get('buckets', []))[:90]))
        if r.get('stderr'):
            print('     stderr:', r['stderr'])
    path = os.path.join(V, 'sensitivity.json')
    old = {}
    if os.path.exists(path):
        old = {(r['mutant'], r['property']): r for r in json.load(open(path))}
    for r in results:
        r.pop('stderr', None)
        old[(r['mutant'], r['property'])] = r
    json.dump(sorted(old.values(), key=lambda r: (r['property'], r['mutant'])), open(path, 'w'), indent=1)
    missed = [r for r in results if r['status'] != 'caught']
    print('%d runs, %d not caught' % (len(results), len(missed)))
    return 1 if missed else 0


if __name__ == '__main__':
    sys.exit(main())
