#!/usr/bin/env python3
"""Set up a round of seeded-change sub-agents.

  tools/round.py setup  [ID ...]   one scratch worktree of /repo per property under /tmp/wt/<ID>, an empty /tmp/seedout/<ID>/
                                   and the prompt for the sub-agent in /tmp/prompts/<ID>.txt (property text + one-line
                                   summaries of the changes already kept for that property - nothing else from /verif)
  tools/round.py drop   [ID ...]   remove the worktrees again
"""
import os, sys, json, glob, subprocess, shutil
V = os.path.dirname(os.path.dirname(os.path.abspath(__file__)))

THEME = """What kind of change we want THIS time (pick two different ones, one of each kind if you can):

 (E) TWO ROUTES TO THE SAME THING. The tool offers several routes that are documented or plainly meant to be equivalent:
     an option at start-up (-f, -b, -C, --supress ...) versus the command typed later at the prompt; file mode (-l) versus pipe
     mode (-p) versus run mode (-r) versus GDB mode (-g); the old `@` dialect of libwayland versus the current `#` dialect;
     a client's log versus a server's log; a command and its abbreviation or its `wl`-prefixed form; the live view versus a
     later `list`; a matcher written compactly versus with brackets / blanks; an object named by type, by id or by label.
     Break ONE route only, in a way that needs a particular (but legitimate) input or sequence to show, so that somebody
     who only ever tries the other routes, or who tries this one with everyday input, never notices.

 (F) LATE EFFECTS. What is shown or decided about an EARLIER message changes (or fails to change when it should) because of
     something that happens LATER: the object is destroyed or its id re-used, its connection closes or gets a title, another
     connection appears, a filter is replaced, the same text is listed a second time, the session grows past some size; or a
     value is computed lazily at display time instead of at arrival time (or the reverse), cached, memoised or shared so that
     the first use is right and a later one is not.

Do NOT make a change that ordinary use would expose at once (every line wrong, a crash on start-up, a command that never
works). The change must look like something a maintainer could plausibly commit (a refactoring, an optimisation, a
"simplification", a small feature) - no comments or names that give it away, no dead code, no special-casing of magic values."""

TEMPLATE = """You are helping to evaluate a verification effort for the open-source tool wayland-debug (Python; a CLI / GDB plugin
that parses WAYLAND_DEBUG logs or libwayland closures, tracks object lifetimes per connection, and filters messages with a
small matcher language). You have your own scratch git worktree of the repository at {wt} - work ONLY there (never touch
/repo or /verif, do not read /verif). Python is /venv/bin/python. The existing test-suite is run from the worktree with:

    cd {wt} && /venv/bin/python -m pytest -q -p no:cacheprovider --timeout=900 --continue-on-collection-errors

(214 tests pass and 21 fail on the unchanged tree - the failing ones need things this sandbox does not have; the SAME tests must
pass and fail after your change.) There is no network.

Here is a property that users of the tool rely on:

--- PROPERTY {pid}: {title}
{statement}

Quantified over: {quant}

Code it is anchored in: {files}
---

Your task: produce TWO independent changes to the tool's source (not to its tests) that each BREAK this property while the
code still runs and the existing test-suite result is unchanged, each with a demonstration.

{theme}

Already known changes for this property (do something DIFFERENT from all of these - another site, another mechanism, another
trigger):
{known}

For each change n = 1, 2 write into {out}/ :
  patch{{n}}.diff   `git diff` of the change against the worktree's HEAD (applies with `git apply` at the worktree root)
  demo{{n}}.py      a self-contained program, run as `/venv/bin/python demo{{n}}.py` with the worktree root as current directory,
                  that exercises the tool (import its modules, or run main.py as a subprocess) on the specific input /
                  sequence that is needed, prints what it saw, and exits 0 when the property holds (unchanged tree) and 1 when
                  it is violated (with your change). It must not depend on timing luck, the network or files outside the
                  worktree, and must finish within a minute.
  meta{{n}}.json    {{"summary": "<what the change does, 1-3 sentences>", "needs": "<what exactly is needed for it to
                  manifest>", "files": ["<files touched>"], "kind": "E" or "F"}}

Procedure you must follow for each change: make it in the worktree; run the test-suite (same 214 pass); run the demo (exit
1); save the diff; `git checkout -- .` ; run the demo again (exit 0). Leave the worktree clean at the end (`git status` shows
nothing but your untracked scratch files, which you should delete too). Keep each patch small (typically under 25 changed lines).

If, while reading the code, you see behaviour of the UNCHANGED tree that already contradicts the property as stated, say so at the
end of your report with the exact input - that is valuable too - but still deliver the two changes.

Your final message: for each change one paragraph (what, where, what is needed to see it), plus any observation about the
unchanged tree. Be brief."""


def props():
    return {json.loads(l)['id']: json.loads(l) for l in open(os.path.join(V, 'properties.jsonl'))}


def known(pid):
    out = []
    for d in sorted(glob.glob(os.path.join(V, 'seeded', pid + '-*')), key=lambda p: int(p.rsplit('-', 1)[1])):
        try:
            m = json.load(open(os.path.join(d, 'meta.json')))
        except Exception:
            continue
        s = (m.get('summary') or '').strip().replace('\n', ' ')
        if s:
            out.append(' - ' + s[:260])
    return '\n'.join(out) or ' (none)'


def main():
    cmd = sys.argv[1]
    P = props()
    ids = sys.argv[2:] or sorted(P)
    for pid in ids:
        wt = '/tmp/wt/' + pid
        out = '/tmp/seedout/' + pid
        if cmd == 'drop':
            subprocess.run(['git', '-C', '/repo', 'worktree', 'remove', '--force', wt], capture_output=True)
            shutil.rmtree(wt, ignore_errors=True)
            continue
        os.makedirs('/tmp/wt', exist_ok=True)
        os.makedirs('/tmp/prompts', exist_ok=True)
        shutil.rmtree(out, ignore_errors=True)
        os.makedirs(out)
        if not os.path.exists(wt):
            r = subprocess.run(['git', '-C', '/repo', 'worktree', 'add', '-q', '--detach', wt, 'HEAD'], capture_output=True, text=True)
            assert r.returncode == 0, r.stderr
        p = P[pid]
        text = TEMPLATE.format(wt=wt, out=out, pid=pid, title=p['title'], statement=p['statement'], quant=p['quantifier']['text'],
                               files=', '.join(p['anchors']['files']), theme=THEME, known=known(pid))
        open('/tmp/prompts/%s.txt' % pid, 'w').write(text)
        print(pid, wt, len(text))
    if cmd == 'drop':
        subprocess.run(['git', '-C', '/repo', 'worktree', 'prune'])


if __name__ == '__main__':
    main()
