#!/bin/bash
# usage: tools/tryseed.sh <seeded-name> <ID> [extra args of ./check]  - quick tier of one check against a scratch copy with the seeded change applied
cd "$(dirname "$(readlink -f "$0")")/.." || exit 2
name=$1; id=$2; shift 2
d=$(mktemp -d /tmp/wdv-dbg-XXXXXX)
rsync -a --exclude .git --exclude __pycache__ --exclude .pytest_cache /repo/ $d/repo/
patch -p1 -s -d $d/repo -i $PWD/seeded/$name/patch.diff || { rm -rf "$d"; exit 2; }
WDV_REPO=$d/repo WDV_NO_SHRINK=1 ./check $id --tier quick --no-evidence "$@" 2>&1 | grep -v "^WARNING" | tail -${TAILN:-4}
rm -rf "$d"
