#!/usr/bin/env python3
"""Regenerates MANIFEST.json from the property modules that exist under wdverif/props."""
import json, os, sys
V = os.path.dirname(os.path.dirname(os.path.abspath(__file__)))

META = {
 'C01': ('round-trip PBT (Hypothesis): generated message specs -> port of wl_closure_print (both dialects) -> parse.message; must-reject for generated non-message lines',
         'Generated-input search against the spec as oracle; both directions (nothing dropped/split/merged/re-typed, non-messages rejected).',
         'wire.py is a faithful port of libwayland wl_closure_print; strings exclude double quote and backslash.'),
 'C02': ('model-based stateful PBT (Hypothesis RuleBasedStateMachine): multi-connection histories (incl. logs that start mid-session) vs reference object-table model after every step; the same through the real GDB plugin on a gdb stand-in; metamorphic fresh-process run (filtered vs full display)',
         'Every mention is compared with an independent ~80-line model of incarnations after each step, including a full scan of the object table.',
         'Well-formedness as constructed by histgen (client ids reused only after delete_id; objects never seen created stay unresolved, what they create exists); reference model of DESIGN appendix B.'),
 'C03': ('model-based stateful PBT (Hypothesis RuleBasedStateMachine): lifetimes/alive sets/lifespans vs reference model; monotone-death invariant',
         'Alive sets, destroyed annotations and lifespans are compared with the model after every step on client- and server-side logs.',
         'Non-decreasing timestamps without 32-bit wrap-around; lifespans compared in exact integer microseconds +-1 in the last printed digit.'),
 'C04': ('metamorphic PBT (alone vs interleaved, two merge orders) + stateful machine on the connection-id sink',
         'Projection of each connection from an interleaved run equals the run of that connection alone and the reference model.',
         'Projections exclude times and separators (relative to the global first message, covered by C16).'),
 'C05': ('differential PBT: generated matcher ASTs rendered canonically/decorated vs three-valued reference semantics over real message universes',
         'Matcher meaning is compared with an independent evaluator written from matchers.md; undocumented outcomes are skipped and counted.',
         'Reference semantics of DESIGN appendix A; grammar bounds listed in DESIGN section 6.'),
 'C06': ('model-based PBT over scripted sessions (readline hook owns the schedule): per-line expectation from independently parsed matchers',
         'The harness owns the interleaving of lines and commands and attributes every output line to the input item that produced it.',
         'Matcher meaning is C05\'s business: expectations use an independently parsed copy of the same matcher text.'),
 'C07': ('exhaustive enumeration of shipped protocol lookups + PBT over synthetic multi-version XML sets in every load order vs independent XML reader + model-based PBT over generated histories in log mode and as closures from several threads in GDB mode (decoration is a function of the message alone) + differential runs of copies of the tree installed elsewhere',
         'All shipped interfaces x messages x argument positions and enum decodes are enumerated; version precedence is searched over generated XML.',
         'protoxml.py (own ElementTree reader) is the oracle; ties at equal maximal version accept any one description.'),
 'C08': ('PBT over generated streams with chatter: line-by-line conservation, keeps-pace via read hook, prefix law at every truncation offset; line-count conservation of real main.py runs under generated option combinations',
         'Output items are matched one-to-one with input lines; output length is sampled at every readline() call; every truncation is re-run.',
         'Chatter contains no timestamp-shaped token (so it denotes no message by an independent definition).'),
 'C09': ('differential PBT: generated closures through a symbolic gdb stand-in vs the spec, and vs log mode on libwayland\'s print-out of the same closure',
         'extract.py is run on generated closures laid out in a stand-in for the gdb module; result compared with the spec and with log mode.',
         'fakegdb models the gdb Python API symbolically (cross-checked against real gdb 13 on a generated C mock in the thorough tier).'),
 'C10': ('model-based stateful PBT (RuleBasedStateMachine) on Plugin+Controller with the gdb stand-in; prompt loop with scripted input',
         'stop() results, Stopped-at notices and gdb.execute log compared with a model of breakpoint/selection/pause after every step.',
         'fakegdb stand-in (a quit can be declined at its confirmation); breakpoint accumulation model shared with C12; connection-only and bare-id alternatives are evaluated by evaluators of our own, other atoms by a parse of that single atom.'),
 'C11': ('model-based PBT over scripted sessions (also sessions of thousands of messages expanded from templates, and fresh main.py processes loading 100 000 .. 270 000 messages): `list` output vs independently filtered record and vs the reference semantics of the matcher language; count identity; state unchanged',
         'Every listing is compared with the recorded history filtered by an independently parsed matcher, including caps and counts.',
         'Listings whose matcher was rendered from a syntax tree are also compared with the reference semantics of DESIGN appendix A where that is settled; other matcher texts are evaluated with a fresh parse of the same text.'),
 'C12': ('model-based PBT: sequences of filter/breakpoint commands vs accumulator model over atoms, evaluated on a message universe after every step',
         'An independent accumulator (alternatives, exclusions, star flag) predicts selection for every message after every command.',
         'Outcomes the statement leaves open (alternatives absorbed by *) are skipped and counted.'),
 'C13': ('differential PBT over real subprocesses: file vs pipe vs run mode, chunkings/delays (also a slow producer on the pipe), per-process hash seeds, undecodable bytes, byte order mark, -b/--supress, file mode on a FIFO and /dev/stdin, standard output (and input) on pseudo-terminals, exit status, child argv/env report',
         'main.py is run three ways on the same generated stream; outputs, child report and exit status are compared.',
         'Chunkings and delays are sampled on a real pipe; kernel scheduling is not enumerated. LC_ALL=C.UTF-8 (the only kind of locale in the sandbox).'),
 'C14': ('exhaustive enumeration of letter ids through four letters + PBT: every label of generated histories (also of sessions expanded to thousands of messages, incarnations beyond zz, up to 1060 connections) used as a matcher vs model mention sets, also inside scripted sessions (selection changes by name / app id / refused names, labels given to filter/breakpoint before)',
         'Bijection/shortlex order enumerated for 475254 indexes; labels-as-matchers compared with the model in both inclusions.',
         'Reference model of DESIGN appendix B.'),
 'C15': ('model-based stateful PBT (RuleBasedStateMachine) on the GDB plugin with the gdb stand-in: messages/destroys on several addresses and threads',
         'Connection open/close/reuse compared with a model after every step; any exception out of stop() is a violation.',
         'fakegdb stand-in (cross-checked with real gdb on a mock in the thorough tier).'),
 'C16': ('metamorphic PBT (constant time shift) + exact microsecond arithmetic oracle for time column and separators, in log sessions and on the connection-id interface (connections closing and opening over time)',
         'Displayed times and separators are recomputed in exact integer microseconds; shifted logs must display the same.',
         'A gap of exactly one second does not exceed a second (no separator); +-1 in the last printed digit is the statement\'s tolerance.'),
 'C17': ('metamorphic PBT: same session under both colour settings (strip-equality), coloured paste-back vs plain text, main.py\'s own texts under --color / -C / both from fresh processes',
         'Every session is run twice; stripped coloured output must equal plain output character for character.',
         'Escape sequences are those the tool itself emits (SGR).'),
 'C18': ('totality PBT + coverage-guided fuzzing (atheris) + subprocess byte fuzzing: only documented rejection channels may be used',
         'Mutated and arbitrary lines/matchers/commands/bytes are thrown at the four entry points; any exception that escapes the tool (a traceback on stderr, an aborted prompt loop, a wrong exit status, an unclosed connection) is a violation; an internal error the line loop catches, prints and survives is counted in the evidence, not reported (DESIGN 10.3).',
         'A slow input is inconclusive, never a violation. LC_ALL=C.UTF-8; strictly decoding standard streams (as under an ordinary UTF-8 locale) are reproduced with PYTHONIOENCODING.'),
 'C19': ('differential PBT: generated argument vectors vs reference splitter; argv observed by the child / by Python inside real gdb via a shim; the real gdb in batch mode through main.py answering for the options it was given',
         'parse_args is compared with an own left-to-right splitter; forwarded words are observed from the receiving side.',
         'Option values are separate words not starting with "-" (the statement\'s domain).'),
}

props = [json.loads(l) for l in open(os.path.join(V, 'properties.jsonl'))]
checks, na = [], []
for p in props:
    pid = p['id']
    mod = os.path.join(V, 'wdverif', 'props', pid.lower() + '.py')
    tech, text, note = META[pid]
    if os.path.exists(mod):
        checks.append(dict(
            property_id=pid,
            quick_cmd='./check %s --tier quick' % pid,
            thorough_cmd='./check %s --tier thorough' % pid,
            evidence_file='evidence/%s.json' % pid,
            replay_cmd_template='./check %s --replay {path}' % pid,
            engine='wdverif',
            level_claimed=dict(category='exploration', text=text + ' Held on N generated cases of the stated classes; never establishes absence.',
                               design_ref='DESIGN.md section 4, ' + pid),
            level_note=note,
            technique=tech))
    else:
        na.append(dict(property_id=pid, reason='check not built yet in this revision (planned: ' + tech + ')'))

m = dict(
    version=1,
    setup_cmd='/venv/bin/python -c "import hypothesis" 2>/dev/null || /venv/bin/pip install --no-index --find-links /opt/veriftools/wheels hypothesis',
    hooks=dict(guard='WAYLAND_DEBUG_VERIF', enable='no hook is needed: checks import the repository from its working tree and export WAYLAND_DEBUG_VERIF=1',
               baseline_off_cmd='cd /repo && /venv/bin/python -m pytest -ra -q -p no:cacheprovider --timeout=900 --continue-on-collection-errors',
               source_commits=[], add_only=True),
    engines=[dict(name='wdverif', path='wdverif/', serves_properties=[c['property_id'] for c in checks],
                  kind_free_text='Hypothesis 6.168 property-based / stateful testing, exhaustive enumeration of small finite domains, atheris fuzzing (C18), subprocess differentials; own runner with collect-bucket-shrink-replay')],
    checks=checks,
    not_applicable=na,
    notes='Every check: ./check <ID> --tier quick|thorough; replay: ./check <ID> --replay <file>. VERIF_SEED selects the Hypothesis seed. Exit 2 = harness error/inconclusive.')
json.dump(m, open(os.path.join(V, 'MANIFEST.json'), 'w'), indent=1)
print('checks:', [c['property_id'] for c in checks], 'not yet:', [n['property_id'] for n in na])
