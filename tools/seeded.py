#!/usr/bin/env python3
"""Seeded-change bookkeeping.

  tools/seeded.py import <ID> [--src /tmp/seedout/<ID>]   verify a sub-agent's patches myself and keep them as seeded/<ID>-<n>/
  tools/seeded.py run [name ...] [--tier quick] [--all-props]   run my checks against each kept change (on a scratch copy of /repo)

Verification on import (all in a scratch git worktree of /repo, outside /repo and /verif):
  patch applies to HEAD; pinned test-suite: same PASSED/FAILED sets as the clean tree; demo exits 0 clean and 1 patched.
"""
import os, sys, json, shutil, subprocess, tempfile, argparse, re, time, glob
from concurrent.futures import ThreadPoolExecutor
V = os.path.dirname(os.path.dirname(os.path.abspath(__file__)))
REPO = '/repo'
PY = '/venv/bin/python'


def sh(cmd, cwd=None, env=None, timeout=1800):
    return subprocess.run(cmd, cwd=cwd, env=env, capture_output=True, text=True, timeout=timeout)


def test_sets(tree):
    r = sh([PY, '-m', 'pytest', '-q', '-rA', '-p', 'no:cacheprovider', '--timeout=900', '--continue-on-collection-errors'], cwd=tree)
    res = {}
    for l in r.stdout.splitlines():
        m = re.match(r'^(PASSED|FAILED|ERROR)\s+(\S+)', l)
        if m:
            res[m.group(2)] = m.group(1)
    return res


def worktree():
    d = tempfile.mkdtemp(prefix='wdv-seed-')
    os.rmdir(d)
    r = sh(['git', '-C', REPO, 'worktree', 'add', '-q', '--detach', d, 'HEAD'])
    assert r.returncode == 0, r.stderr
    return d


def drop_worktree(d):
    sh(['git', '-C', REPO, 'worktree', 'remove', '--force', d])
    shutil.rmtree(d, ignore_errors=True)


def do_import(pid, src, offset=None):
    if offset is None:
        offset = max([int(p.rsplit('-', 1)[1]) for p in glob.glob(os.path.join(V, 'seeded', pid + '-*'))] or [0])
    wt = worktree()
    kept = []
    try:
        base = test_sets(wt)
        npass = sum(1 for v in base.values() if v == 'PASSED')
        print('clean tree: %d passed, %d failed/error' % (npass, len(base) - npass))
        for patch in sorted(glob.glob(os.path.join(src, 'patch*.diff'))):
            n = re.search(r'patch(\d+)\.diff', patch).group(1)
            demo = os.path.join(src, 'demo%s.py' % n)
            meta = os.path.join(src, 'meta%s.json' % n)
            info = dict(property=pid, source='sub-agent (fresh, given only the property text and a scratch worktree)')
            if os.path.exists(meta):
                try:
                    info.update(json.load(open(meta)))
                except Exception as e:
                    info['meta_error'] = str(e)
            sh(['git', '-C', wt, 'checkout', '--', '.'])
            sh(['git', '-C', wt, 'clean', '-fdq'])
            d0 = sh([PY, demo], cwd=wt, timeout=600)
            r = sh(['git', '-C', wt, 'apply', patch])
            if r.returncode != 0:
                print(pid, n, 'patch does not apply:', r.stderr[:300])
                continue
            t = test_sets(wt)
            same = t == base
            d1 = sh([PY, demo], cwd=wt, timeout=600)
            sh(['git', '-C', wt, 'checkout', '--', '.'])
            sh(['git', '-C', wt, 'clean', '-fdq'])
            ok = same and d0.returncode == 0 and d1.returncode == 1
            info['verified'] = dict(tests_same_as_clean=same, tests_passed=sum(1 for v in t.values() if v == 'PASSED'),
                                    demo_exit_clean=d0.returncode, demo_exit_patched=d1.returncode,
                                    repo_head=sh(['git', '-C', REPO, 'rev-parse', '--short', 'HEAD']).stdout.strip(),
                                    ran=['git apply patch.diff', 'pytest -q -rA (PASSED/FAILED sets compared with the clean tree)',
                                         'python demo.py (clean tree: exit 0, patched tree: exit 1)'],
                                    demo_output_patched=(d1.stdout + d1.stderr)[-600:])
            print(pid, n, 'tests same:', same, 'demo clean/patched:', d0.returncode, d1.returncode, '->', 'KEEP' if ok else 'REJECT')
            if not same:
                diff = {k: (base.get(k), t.get(k)) for k in set(base) | set(t) if base.get(k) != t.get(k)}
                print('   test differences:', list(diff.items())[:5])
            if ok:
                dst = os.path.join(V, 'seeded', '%s-%d' % (pid, int(n) + offset))
                os.makedirs(dst, exist_ok=True)
                shutil.copy(patch, os.path.join(dst, 'patch.diff'))
                shutil.copy(demo, os.path.join(dst, 'demo.py'))
                json.dump(info, open(os.path.join(dst, 'meta.json'), 'w'), indent=1)
                kept.append(dst)
    finally:
        drop_worktree(wt)
    return kept


def do_rebase(names):
    """after a repair of /repo: re-fit every kept patch that no longer applies (patch --fuzz), regenerate it against HEAD and
    re-verify it (same test sets as the clean tree, demo 0 clean / 1 patched) in a scratch worktree; report what needs hands"""
    wt = worktree()
    try:
        base = None
        for name in names:
            d = os.path.join(V, 'seeded', name)
            patch = os.path.join(d, 'patch.diff')
            if not os.path.exists(patch):
                continue
            sh(['git', '-C', wt, 'checkout', '--', '.']); sh(['git', '-C', wt, 'clean', '-fdq'])
            if sh(['git', '-C', wt, 'apply', '--check', patch]).returncode == 0:
                continue
            r = sh(['patch', '-p1', '--fuzz=3', '--no-backup-if-mismatch', '-i', patch], cwd=wt)
            rej = sh(['git', '-C', wt, 'status', '--short']).stdout
            if r.returncode != 0 or '.rej' in rej:
                print(name, 'NEEDS HANDS:', (r.stdout + r.stderr).strip().splitlines()[-3:])
                continue
            diff = sh(['git', '-C', wt, 'diff']).stdout
            demo = os.path.join(d, 'demo.py')
            t = test_sets(wt)
            d1 = sh([PY, demo], cwd=wt, timeout=600)
            sh(['git', '-C', wt, 'checkout', '--', '.']); sh(['git', '-C', wt, 'clean', '-fdq'])
            if base is None:
                base = test_sets(wt)
            d0 = sh([PY, demo], cwd=wt, timeout=600)
            ok = t == base and d0.returncode == 0 and d1.returncode == 1
            print(name, 're-fitted' if ok else 'RE-FIT FAILS VERIFICATION (tests same %r, demo %r/%r)' % (t == base, d0.returncode, d1.returncode))
            if ok:
                open(patch, 'w').write(diff)
                mp = os.path.join(d, 'meta.json')
                m = json.load(open(mp))
                m.setdefault('verified', {})['rebased_onto'] = sh(['git', '-C', REPO, 'rev-parse', '--short', 'HEAD']).stdout.strip()
                json.dump(m, open(mp, 'w'), indent=1)
    finally:
        drop_worktree(wt)


def do_verify(names):
    """re-verify kept patches against the current HEAD: apply, same test sets as the clean tree, demo 0 clean / 1 patched"""
    wt = worktree()
    try:
        base = test_sets(wt)
        for name in names:
            d = os.path.join(V, 'seeded', name)
            patch, demo = os.path.join(d, 'patch.diff'), os.path.join(d, 'demo.py')
            sh(['git', '-C', wt, 'checkout', '--', '.']); sh(['git', '-C', wt, 'clean', '-fdq'])
            d0 = sh([PY, demo], cwd=wt, timeout=600)
            if sh(['git', '-C', wt, 'apply', patch]).returncode != 0:
                print(name, 'DOES NOT APPLY')
                continue
            t = test_sets(wt)
            d1 = sh([PY, demo], cwd=wt, timeout=600)
            ok = t == base and d0.returncode == 0 and d1.returncode == 1
            print(name, 'verified' if ok else 'FAILS (tests same %r, demo clean %r patched %r)' % (t == base, d0.returncode, d1.returncode))
            if ok:
                mp = os.path.join(d, 'meta.json')
                m = json.load(open(mp))
                m.setdefault('verified', {})['rebased_onto'] = sh(['git', '-C', REPO, 'rev-parse', '--short', 'HEAD']).stdout.strip()
                json.dump(m, open(mp, 'w'), indent=1)
    finally:
        drop_worktree(wt)


def run_one(name, pid, tier, seed):
    d = os.path.join(V, 'seeded', name)
    tmp = tempfile.mkdtemp(prefix='wdv-seedrun-')
    try:
        dst = os.path.join(tmp, 'repo')
        shutil.copytree(REPO, dst, ignore=shutil.ignore_patterns('.git', '__pycache__', '.pytest_cache'))
        r = sh(['patch', '-p1', '-s', '-i', os.path.join(d, 'patch.diff')], cwd=dst)
        if r.returncode != 0:
            r2 = sh(['git', 'apply', '--3way', os.path.join(d, 'patch.diff')], cwd=dst)
            return dict(seed=name, property=pid, status='PATCH-STALE', detail=(r.stdout + r.stderr)[-300:])
        env = dict(os.environ, WDV_REPO=dst, VERIF_SEED=str(seed), WDV_NO_SHRINK='1')
        t0 = time.time()
        r = sh([os.path.join(V, 'check'), pid, '--tier', tier, '--no-evidence'], env=env, timeout=7200)
        caught = r.returncode == 1 and ('VIOLATION property=' + pid) in r.stdout
        buckets = sorted({l.split(']')[0][len('discrepancy ['):] for l in r.stdout.splitlines() if l.startswith('discrepancy [')})
        return dict(seed=name, property=pid, tier=tier, status='caught' if caught else 'MISSED rc=%d' % r.returncode,
                    wall_s=round(time.time() - t0, 1), buckets=buckets[:8], stderr=r.stderr[-400:] if r.returncode == 2 else '')
    finally:
        shutil.rmtree(tmp, ignore_errors=True)


def main():
    ap = argparse.ArgumentParser()
    sub = ap.add_subparsers(dest='cmd')
    a1 = sub.add_parser('import')
    a1.add_argument('pid')
    a1.add_argument('--src')
    a1.add_argument('--offset', type=int, default=None, help='default: the highest number kept for this property so far')
    a4 = sub.add_parser('verify')
    a4.add_argument('names', nargs='*')
    a3 = sub.add_parser('rebase')
    a3.add_argument('names', nargs='*')
    a2 = sub.add_parser('run')
    a2.add_argument('names', nargs='*')
    a2.add_argument('--tier', default='quick')
    a2.add_argument('--jobs', type=int, default=3)
    a2.add_argument('--seed', type=int, default=1)
    a2.add_argument('--seeds', help='comma list of VERIF_SEED values: report the detection rate per seeded change')
    a2.add_argument('--props', help='comma list: run these checks instead of the seeded property\'s own')
    a = ap.parse_args()
    if a.cmd == 'verify':
        do_verify(a.names)
        return 0
    if a.cmd == 'rebase':
        do_rebase(a.names or sorted(os.listdir(os.path.join(V, 'seeded'))))
        return 0
    if a.cmd == 'import':
        do_import(a.pid, a.src or '/tmp/seedout/' + a.pid, a.offset)
        return 0
    names = a.names or sorted(os.listdir(os.path.join(V, 'seeded')))
    jobs = []
    for n in names:
        mp = os.path.join(V, 'seeded', n, 'meta.json')
        if not os.path.exists(mp):
            continue
        pid = json.load(open(mp))['property']
        for p in (a.props.split(',') if a.props else [pid]):
            if os.path.exists(os.path.join(V, 'wdverif', 'props', p.lower() + '.py')):
                jobs.append((n, p))
    if a.seeds:
        seeds = [int(x) for x in a.seeds.split(',')]
        multi = [(n, p, sd) for (n, p) in jobs for sd in seeds]
        with ThreadPoolExecutor(a.jobs) as ex:
            rs = list(ex.map(lambda j: run_one(j[0], j[1], a.tier, j[2]), multi))
        rates = {}
        for (n, p, sd), r in zip(multi, rs):
            rates.setdefault((n, p), []).append((sd, r['status'] == 'caught'))
        path = os.path.join(V, 'seeded', 'rates.json')
        old = json.load(open(path)) if os.path.exists(path) else {}
        for (n, p), l in sorted(rates.items()):
            hit = sum(1 for _, c in l if c)
            print('%-10s %-4s caught at %d of %d seeds %s' % (n, p, hit, len(l), '' if hit == len(l) else 'MISSED at seeds %r' % [sd for sd, c in l if not c]))
            old['%s/%s' % (n, p)] = dict(seeds=[sd for sd, _ in l], caught=[sd for sd, c in l if c])
        json.dump(old, open(path, 'w'), indent=1, sort_keys=True)
        return 0
    with ThreadPoolExecutor(a.jobs) as ex:
        results = list(ex.map(lambda j: run_one(j[0], j[1], a.tier, a.seed), jobs))
    path = os.path.join(V, 'seeded', 'results.json')
    old = {}
    if os.path.exists(path):
        old = {(r['seed'], r['property']): r for r in json.load(open(path))}
    for r in results:
        print('%-10s %-4s %-20s %7ss %s' % (r['seed'], r['property'], r['status'], r.get('wall_s', ''), ','.join(r.get('buckets', []))[:100]))
        if r.get('stderr'):
            print('    stderr:', r['stderr'])
        r.pop('stderr', None)
        old[(r['seed'], r['property'])] = r
    json.dump(sorted(old.values(), key=lambda r: (r['seed'], r['property'])), open(path, 'w'), indent=1)
    return 0


if __name__ == '__main__':
    sys.exit(main())
