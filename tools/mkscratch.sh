#!/bin/bash
# usage: tools/mkscratch.sh <seeded-name> -> prints the path of a patched scratch copy of /repo (remove it when done)
set -e
d=$(mktemp -d /tmp/wdv-dbg-XXXXXX)
rsync -a --exclude .git --exclude __pycache__ --exclude .pytest_cache /repo/ $d/repo/
patch -p1 -s -d $d/repo -i /verif/seeded/$1/patch.diff
echo $d/repo
