"""Hand-made single-site mutants of the repository (the "must catch" lists of DESIGN section 4).
(name, [properties that must catch it], file, old text, new text) - each keeps the pinned test-suite green
(checked once by tools/mutants_pass_tests.sh when a mutant is added)."""
P = 'backends/libwayland_debug_output/parse.py'
CI = 'core/connection_impl.py'
CM = 'core/connection_manager.py'
PR = 'core/wl/protocol.py'
MSG = 'core/wl/message.py'
OBJ = 'core/wl/object.py'
LID = 'core/letter_id_generator.py'
MA = 'core/matcher.py'
CT = 'frontends/tui/controller.py'

MUTANTS = [
    # ---- C01
    ('c01-split-on-comma-only', ['C01'], P, "if args_str[i:].startswith(', '):", "if args_str[i:].startswith(','):"),
    ('c01-no-quote-tracking', ['C01'], P, "        if args_str[i] == '\"':\n            i = end_of_str(args_str, i)\n", ""),
    ('c01-hash-dialect-lost', ['C01'], P, r"message_regex = r'(?P<type>\w+)[@#]", r"message_regex = r'(?P<type>\w+)[@]"),
    ('c01-direction-inverted-with-queue', ['C01'], P, "    abs_timestamp = float(", "    if '{' in raw[:40]: sent = not sent\n    abs_timestamp = float("),
    ('c01-fd-as-int', ['C01'], P, "return wl.Arg.Fd(int(match.group('fd')))", "return wl.Arg.Int(int(match.group('fd')))"),
    ('c01-accepts-missing-paren', ['C01'], P, r"\((?P<args>.*)\)$'", r"\((?P<args>.*)\)?$'"),
    # ---- C02
    ('c02-retrieve-first-generation', ['C02', 'C14'], MSG, "self.destroyed_obj = conn.retrieve_object(first_arg.value, -1, None)", "self.destroyed_obj = conn.retrieve_object(first_arg.value, 0, None)"),
    ('c02-bind-type-from-wrong-arg', ['C02'], MSG, "self.args[3].set_type(self.args[1].value)", "self.args[3].set_type(str(self.args[1].value).split('_v')[0])"),
    ('c02-generation-stuck-after-two', ['C02', 'C14'], CI, "generation = len(self.db[obj_id])", "generation = min(len(self.db[obj_id]), 2)"),
    ('c02-letters-off-by-one-at-z', ['C02', 'C14'], LID, "        value //= 26\n    return result", "        value //= 26\n    return result if len(result) < 2 else result[1:] + result[:1]"),
    # ---- C03
    ('c03-no-implicit-destroy', ['C03'], CI, "                    last_obj.destroy(time)\n", "                    pass\n"),
    ('c03-lifespan-from-zero', ['C03'], OBJ, "return self.destroy_time - self.create_time", "return self.destroy_time - (self.create_time if self.generation else 0.0)"),
    ('c03-destroy-keeps-alive-on-reuse', ['C03'], OBJ, "        self.destroy_time = time\n        self.alive = False", "        self.destroy_time = time\n        self.alive = self.generation > 3"),
    # ---- C04
    ('c04-role-from-any-first-message', ['C04'], P, "                is_server = not msg.sent\n", "                is_server = not msg.sent\n            elif msg.name == 'sync':\n                is_server = msg.sent\n"),
    ('c04-close-only-first-connection', ['C04'], P, "        for conn_id in self.known_connections:\n            self.sink.close_connection(self.last_time, conn_id)", "        for conn_id in sorted(self.known_connections)[:3]:\n            self.sink.close_connection(self.last_time, conn_id)"),
    ('c04-name-generator-reused-after-close', ['C04', 'C14'], CM, "            connection.close(time)\n", "            connection.close(time)\n            self.connection_name_generator.index -= 1 if len(self.connection_list) > 3 else 0\n"),
    # ---- C07
    ('c07-version-compare-flipped-on-tie', ['C07'], PR, "if not existing or existing.version < interface.version:", "if not existing or existing.version <= interface.version or interface.version == 1:"),
    ('c07-bitfield-as-equality', ['C07'], PR, "            if entry.value & arg_value:", "            if entry.value & arg_value == entry.value and entry.value:"),
    ('c07-none-invalid-swapped', ['C07'], PR, "    elif enum.bitfield:\n        return ['(none)']", "    elif not enum.bitfield:\n        return ['(none)']"),
    ('c07-enum-path-split', ['C07'], PR, "    enum_interface_name = enum_name_parts[-2]", "    enum_interface_name = enum_name_parts[0]"),
    ('c07-arg-index-off-by-one-after-new-id', ['C07'], PR, "    arg = arg_list[arg_index]\n", "    arg = arg_list[arg_index if arg_index < 5 else arg_index - 1]\n"),
    # ---- C14
    ('c14-letter-inverse-case', ['C14'], LID, "    text = text.lower()\n", "    text = text if len(text) < 2 else text.lower()\n"),
]
