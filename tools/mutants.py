"""Hand-made single-site mutants of the repository (the "must catch" lists of DESIGN section 4).
(name, [properties that must catch it], file, old text, new text) - each keeps the pinned test-suite green
(checked once by tools/mutants_pass_tests.sh when a mutant is added)."""
P = 'backends/libwayland_debug_output/parse.py'
CI = 'core/connection_impl.py'
CM = 'core/connection_manager.py'
PR = 'core/wl/protocol.py'
MSG = 'core/wl/message.py'
OBJ = 'core/wl/object.py'
LID = 'core/letter_id_generator.py'
MA = 'core/matcher.py'
CT = 'frontends/tui/controller.py'

MUTANTS = [
    # ---- C01
    ('c01-hash-dialect-lost', ['C01'], P, r"message_regex = r'(?P<type>\w+)[@#]", r"message_regex = r'(?P<type>\w+)[@]"),
    ('c01-direction-inverted-with-queue', ['C01'], P, "    abs_timestamp = float(", "    if '{' in raw[:40]: sent = not sent\n    abs_timestamp = float("),
    # ---- C02
    ('c02-retrieve-first-generation', ['C02', 'C14'], MSG, "self.destroyed_obj = conn.retrieve_object(first_arg.value, -1, None)", "self.destroyed_obj = conn.retrieve_object(first_arg.value, 0, None)"),
    ('c02-bind-type-from-wrong-arg', ['C02'], MSG, "self.args[3].set_type(self.args[1].value)", "self.args[3].set_type(str(self.args[1].value).split('_v')[0])"),
    ('c02-generation-stuck-after-two', ['C02', 'C14'], CI, "generation = len(self.db[obj_id])", "generation = min(len(self.db[obj_id]), 2)"),
    # ---- C03
    ('c03-lifespan-from-zero', ['C03'], OBJ, "return self.destroy_time - self.create_time", "return self.destroy_time - (self.create_time if self.generation else 0.0)"),
    ('c03-destroy-keeps-alive-on-reuse', ['C03'], OBJ, "        self.destroy_time = time\n        self.alive = False", "        self.destroy_time = time\n        self.alive = self.generation > 3"),
    # ---- C04
    ('c04-close-only-first-connection', ['C04'], P, "        for conn_id in self.known_connections:\n            self.sink.close_connection(self.last_time, conn_id)", "        for conn_id in sorted(self.known_connections)[:3]:\n            self.sink.close_connection(self.last_time, conn_id)"),
    ('c04-name-generator-reused-after-close', ['C04', 'C14'], CM, "            connection.close(time)\n", "            connection.close(time)\n            self.connection_name_generator.index -= 1 if len(self.connection_list) > 3 else 0\n"),
    # ---- C07
    ('c07-version-compare-flipped-on-tie', ['C07'], PR, "if not existing or existing.version < interface.version:", "if not existing or existing.version <= interface.version or interface.version == 1:"),
    ('c07-bitfield-as-equality', ['C07'], PR, "            if entry.value & arg_value:", "            if entry.value & arg_value == entry.value and entry.value:"),
    ('c07-none-invalid-swapped', ['C07'], PR, "    elif enum.bitfield:\n        return ['(none)']", "    elif not enum.bitfield:\n        return ['(none)']"),
    ('c07-enum-path-split', ['C07'], PR, "    enum_interface_name = enum_name_parts[-2]", "    enum_interface_name = enum_name_parts[0]"),
    ('c07-arg-index-off-by-one-after-new-id', ['C07'], PR, "    arg = arg_list[arg_index]\n", "    arg = arg_list[arg_index if arg_index < 5 else arg_index - 1]\n"),
    # ---- C14
]

EX = 'backends/gdb_plugin/extract.py'
PL = 'backends/gdb_plugin/plugin.py'
AR = 'frontends/tui/arguments.py'
GR = 'backends/gdb_plugin/runner.py'
RU = 'backends/libwayland_debug_output/runner.py'
UT = 'core/util.py'
ARG = 'core/wl/arg.py'

MUTANTS += [
    # ---- the repaired defects, re-introduced (each check must catch the defect it was repaired for)
    ('revert-c01-empty-string', ['C01'], P, "elif match.group('str') is not None:", "elif match.group('str'):"),
    ('revert-c01-array-n', ['C01'], P, r"array_re = r'(?P<array>array(?:\[\d+\])?)'", r"array_re = r'(?P<array>array)'"),
    ('revert-c01-earliest-match', ['C01'], P, "    if in_match and (not match or in_match.start('type') < match.start('type')):", "    if in_match and not match:"),
    ('revert-c01-queue-tie', ['C01'], P, "    if in_match and (not match or in_match.start('type') < match.start('type')):", "    if in_match and (not match or in_match.start() < match.start()):"),
    ('revert-c01-delete-id-unseen', ['C01', 'C02', 'C04'], 'core/wl/message.py',
     "            try:\n                self.destroyed_obj = conn.retrieve_object(first_arg.value, -1, None)\n                self.destroyed_obj.destroy(self.timestamp)\n            except RuntimeError as e:\n                # The object was created before we started looking, the message itself is still a message\n                logging.warning('Unable to resolve destroyed object: ' + str(e))\n",
     "            self.destroyed_obj = conn.retrieve_object(first_arg.value, -1, None)\n            self.destroyed_obj.destroy(self.timestamp)\n"),
    ('revert-c01-greedy-queue', ['C01'], P, "queue_re = r'( {.*?})?'", "queue_re = r'( {.*})?'"),
    ('revert-c05-arg-brackets', ['C05'], MA, "    if text.startswith('[') and text.endswith(']') and _find_closing_brace(text, 0) == len(text) - 1:", "    if text.startswith('[') and text.endswith(']'):"),
    ('revert-c09-array-index', ['C09'], EX, "for elem_index in range(size // int_type.sizeof): # must not reuse i, it is the argument index\n                    elem = value['data'].cast(int_type.pointer())[elem_index]",
     "for i in range(size // int_type.sizeof):\n                    elem = value['data'].cast(int_type.pointer())[i]"),
    ('revert-c09-null-string', ['C09'], EX, "                    args.append(wl.Arg.Null())\n                else:\n                    args.append(wl.Arg.String(value.string()))",
     "                    args.append(wl.Arg.String('[null string]'))\n                else:\n                    args.append(wl.Arg.String(value.string()))"),
    ('revert-c15-keyerror', ['C15'], PL, "        self.connections.pop(connection_id, None)\n", "        del self.connections[connection_id]\n"),
    ('revert-c17-strip-colour-first', ['C17'], CT, "        input_line = no_color(input_line).strip() # strip color first, or leading whitespace hides behind an escape sequence", "        input_line = input_line.strip()"),
    ('revert-c18-int-matcher-inf', ['C18'], MA, "            try:\n                int_value = int(arg.value)\n            except (OverflowError, ValueError): # inf and nan are not integers\n                return False\n            return arg.value == int_value and self.wrapped.matches(int_value)",
     "            return arg.value == int(arg.value) and self.wrapped.matches(int(arg.value))"),
    ('revert-c18-connection-silent', ['C18'], CT, "        if not self.connection_list.connections():\n            self.out.show('No connections yet')\n", ""),
    ('revert-c14-unseen-generation', ['C14'], MA, "generation = obj.generation if obj.generation is not None else -1", "generation = obj.generation if obj.generation is not None else 0"),
    ('revert-c04-arrival-connection-show', ['C04'], 'core/wl/message.py', "        conn = self.obj.connection if self.obj.connection is not None else self.connection\n", "        conn = self.obj.connection\n"),
    ('revert-c04-arrival-connection-match', ['C14', 'C06', 'C05'], MA, "        conn = message.obj.connection if message.obj.connection is not None else message.connection\n", "        conn = message.obj.connection\n"),
    ('revert-c13-eof-at-prompt', ['C13', 'C18'], 'frontends/tui/terminal_ui.py', "            except EOFError:\n                break # nobody is there to type commands (any more), that is not an error\n", "            except EOFError:\n                raise\n"),
    ('revert-c08-flush', ['C08'], 'core/output/stream.py', "print(string, file=self.file, flush=True)", "print(string, file=self.file)"),
    ('revert-c16-exact-second', ['C16'], CT, "        if round(delta, 6) > 1.0:\n", "        if delta > 1.0:\n"),
    ('revert-c11-tilde-in-string', ['C11'], CT, "            elif c == '~' and not in_string:\n", "            elif c == '~':\n"),
    ('revert-c18-nesting-limit', ['C18'], MA, "    _check_nesting(text)\n", ""),
    ('revert-c18-prefix-recursion', ['C18'], CT, "        input_line = re.sub(r'^(?:wl?(?:\\s+|$))+', '', input_line)\n", "        if re.match(r'^wl?(\\s|$)', input_line):\n            self.process_command(input_line[2:] if input_line.startswith('wl') else input_line[1:])\n            return\n"),
    ('revert-c13-closed-order', ['C13'], P, "            self.known_connections[conn_id] = None\n", "            self.known_connections[conn_id] = None\n            self.known_connections = dict.fromkeys(set(self.known_connections))\n"),
    ('revert-c18-pipe-strict-stdin', ['C18', 'C13'], 'main.py', "sys.stdin.reconfigure(newline=None, errors='replace')", "sys.stdin.reconfigure(newline=None)"),
    ('revert-c18-undecodable-file', ['C18'], 'main.py', "open(file_path, errors='replace')", "open(file_path)"),
    ('revert-c18-undecodable-run', ['C18'], RU, "os.fdopen(readable, 'r', errors='replace')", "os.fdopen(readable, 'r')"),
    ('revert-c19-empty-f', ['C19'], AR, "    if args.f is not None:", "    if args.f:"),
    ('revert-c18-wildcard-regex', ['C18'], MA, "    def matches(self, text: str) -> bool:\n        # Leftmost placement", "    def matches(self, text: str) -> bool:\n        import re as _re\n        return len(_re.compile(r'^' + _re.escape(self.pattern).replace(r'\\*', '.*') + r'$').findall(text)) > 0\n\n    def matches_linear(self, text: str) -> bool:\n        # Leftmost placement"),
    ('revert-c19-rg-cluster', ['C19'], AR, "        if _starts_with_single_dash(args[i]) and len(args[i]) > 2:\n            # whichever", "        if False:\n            # whichever"),
    ('revert-c19-repr-quoting', ['C19'], GR, "', '.join(repr(i) for i in args.wayland_debug_args)", "', '.join('\"' + i.replace('\"', '\\\\\"') + '\"' for i in args.wayland_debug_args)"),
    # ---- C05
    ('c05-generation-ignored-uppercase', ['C05', 'C14'], MA, "    return EqMatcher(letter_id_to_number(text), text)", "    return EqMatcher(letter_id_to_number(text), text) if text.islower() else AlwaysMatcher(True)"),
    ('c05-conn-prefix-dropped-on-arg-half', ['C05', 'C14'], MA, "            object_arg_matcher = MessagePattern(conn_matcher, AlwaysMatcher(True), AlwaysMatcher(True), args_matcher)", "            object_arg_matcher = MessagePattern(AlwaysMatcher(True), AlwaysMatcher(True), AlwaysMatcher(True), args_matcher)"),
    # ---- C06
    ('c06-stop-matcher-used-for-display', ['C06'], CT, "            if self.display_matcher.matches(message):\n                self._show_message(message)", "            if self.display_matcher.matches(message) or (self.stop_matcher.matches(message) and self.current_connection is not None):\n                self._show_message(message)"),
    # ---- C08
    ('c08-blank-lines-swallowed', ['C08'], P, "            line = line.strip() # be sure to strip after the empty check\n", "            line = line.strip() # be sure to strip after the empty check\n            if not line and self.last_time > 2:\n                continue\n"),
    # ---- C10
    ('c10-pause-flag-not-cleared', ['C10'], PL, "        if self.state.paused():\n            self.state.resume_requested()\n", "        if self.state.paused() and connection_id in self.connections:\n            self.state.resume_requested()\n"),
    ('c10-continue-after-help', ['C10'], PL, "        elif not self.state.paused():\n            gdb.execute('continue')", "        elif not self.state.paused() or command.strip().startswith('h'):\n            gdb.execute('continue')"),
    # ---- C11
    ('c11-cap-off-by-one', ['C11'], CT, "                if cap and len(acc) >= cap:", "                if cap and len(acc) > cap:"),
    ('c11-not-checked-forgotten', ['C11'], CT, "len(messages) - len(acc) - didnt_match)", "0 if len(acc) > 2 else len(messages) - len(acc) - didnt_match)"),
    ('c11-list-joins-into-filter', ['C11'], CT, "            m = self.parse_and_join(arg, None)", "            m = self.parse_and_join(arg, None)\n            if len(self.all_messages) > 12:\n                self.display_matcher = m"),
    # ---- C12
    ('c12-error-resets-to-never', ['C12'], CT, "            return old if old is not None else matcher.never", "            return matcher.never"),
    ('c12-exclusions-dropped-on-join', ['C12'], MA, "    new_list.negative += old_list.negative\n", "    new_list.negative += old_list.negative[:1]\n"),
    # ---- C13
    ('c13-exit-status-ignored-above-127', ['C13'], 'main.py', "            exit(returncode)", "            exit(returncode if returncode < 128 else 1)"),
    ('c13-env-not-set-when-present', ['C13', 'C19'], RU, "        env['WAYLAND_DEBUG'] = '1'", "        env.setdefault('WAYLAND_DEBUG', 'client')"),
    # ---- C16
    ('c16-threshold-two-seconds-in-list', ['C16'], CT, "        if round(delta, 6) > 1.0:", "        if round(delta, 6) > (1.0 if self.last_shown_timestamp is None or len(self.all_messages) < 9 else 2.0):"),
    # ---- C17
    ('c17-unguarded-escape-in-null', ['C17'], ARG, "            return color(null_color, 'null ' + (self.type if self.type else '??'))", "            return color(null_color, 'null ') + (self.type if self.type else '\\x1b[1;91m??\\x1b[0m')"),
    ('c17-width-on-coloured-text', ['C17'], CT, "                    body = cmd.help.replace('\\n', '\\n' + ' ' * len(no_color(start)))", "                    body = cmd.help.replace('\\n', '\\n' + ' ' * len(start))"),
    # ---- C19
]

MUTANTS += [
    ('c03-implicit-destroy-only-on-type-change', ['C03'], CI, "                    last_obj.destroy(time)\n", "                    if last_obj.type != type_name:\n                        last_obj.destroy(time)\n"),
    ('c05-new-ignores-object-of-later-generations', ['C05'], MA, "                if isinstance(arg, wl.Arg.Object) and arg.is_new and self.obj_matcher.matches(arg.obj):", "                if isinstance(arg, wl.Arg.Object) and arg.is_new and (self.obj_matcher.matches(arg.obj) or arg.obj.generation):"),
    ('c05-float-matches-fd', ['C05'], MA, "        if isinstance(arg, wl.Arg.Float):\n            return self.wrapped.matches(arg.value)\n        else:\n            return False", "        if isinstance(arg, wl.Arg.Float) or isinstance(arg, wl.Arg.Fd):\n            return self.wrapped.matches(arg.value)\n        else:\n            return False"),
    ('c08-passthrough-held-back-one-line', ['C08'], P, "            except RuntimeError as e:\n                self.out.unprocessed(str(e))\n", "            except RuntimeError as e:\n                if getattr(self, 'held', None) is not None:\n                    self.out.unprocessed(self.held)\n                self.held = str(e)\n"),
]

MUTANTS += [
    ('c01-large-fd-as-int', ['C01'], P, "return wl.Arg.Fd(int(match.group('fd')))", "return wl.Arg.Fd(int(match.group('fd'))) if len(match.group('fd')) < 4 else wl.Arg.Int(int(match.group('fd')))"),
]
