#!/usr/bin/env python3
"""Checks that every hand-made mutant keeps the pinned test-suite green (same PASSED/FAILED sets as the clean tree)."""
import os, sys, shutil, tempfile, json
from concurrent.futures import ThreadPoolExecutor
V = os.path.dirname(os.path.dirname(os.path.abspath(__file__)))
sys.path.insert(0, V)
from tools.mutants import MUTANTS
from tools.seeded import test_sets

def one(mut):
    name, props, path, old, new = mut
    tmp = tempfile.mkdtemp(prefix='wdv-mt-')
    try:
        dst = os.path.join(tmp, 'repo')
        shutil.copytree('/repo', dst, ignore=shutil.ignore_patterns('.git', '__pycache__', '.pytest_cache'))
        if mut is not None and name:
            p = os.path.join(dst, path)
            s = open(p).read()
            open(p, 'w').write(s.replace(old, new, 1))
        return name, test_sets(dst)
    finally:
        shutil.rmtree(tmp, ignore_errors=True)

base = one(('', [], 'main.py', '', ''))[1]
print('baseline passed:', sum(1 for v in base.values() if v == 'PASSED'))
with ThreadPoolExecutor(6) as ex:
    res = list(ex.map(one, MUTANTS))
out = {}
for name, t in res:
    same = t == base
    out[name] = same
    if not same:
        diff = {k: (base.get(k), t.get(k)) for k in set(base) | set(t) if base.get(k) != t.get(k)}
        print('TESTS CHANGE', name, list(diff.items())[:3])
json.dump(out, open(os.path.join(V, 'tools', 'mutants_tests.json'), 'w'), indent=1)
print(sum(out.values()), 'of', len(out), 'mutants keep the suite unchanged')
